"""Mechanical projection of a real gtirb module to the JSON abstract state that
the TLA+ trace specifications read.  No expectations are computed here.

Conventions (DESIGN.md 4.1):
 * sections sorted by name; a section's bytes are the concatenation of its byte
   intervals in (address, insertion) order; a block's position ``p`` is its
   offset in that concatenation;
 * blocks sorted by (p, size != 0): zero-sized blocks first;
 * code blocks are decoded by capstone (observer only);
 * JSON objects become TLA+ records, arrays become sequences; there are no
   nulls and no empty objects.
"""
import json
import re
from typing import Dict, List, Optional

import gtirb
from gtirb_capstone.capstone_compatibility import capstone
from gtirb_capstone.instructions import GtirbInstructionDecoder

import gtirb_rewriting._auxdata as _auxdata

SUFFIX_RE = re.compile(r"_\d+$")
_DECODERS: Dict[gtirb.Module.ISA, GtirbInstructionDecoder] = {}


def _decoder(isa):
    d = _DECODERS.get(isa)
    if d is None:
        d = _DECODERS[isa] = GtirbInstructionDecoder(isa)
    return d


def classify(insn, isa) -> str:
    """op | jmp | jcc | call | ret | ijmp | icall  (observer: capstone)."""
    groups = set(insn.groups)
    is_imm = False
    try:
        ops = insn.operands
    except Exception:
        ops = []
    if isa in (gtirb.Module.ISA.X64, gtirb.Module.ISA.IA32):
        is_imm = bool(ops) and ops[0].type == capstone.x86.X86_OP_IMM
        if capstone.CS_GRP_RET in groups or capstone.CS_GRP_IRET in groups:
            return "ret"
        if capstone.CS_GRP_CALL in groups:
            return "call" if is_imm else "icall"
        if capstone.CS_GRP_JUMP in groups:
            if insn.mnemonic == "jmp" or insn.mnemonic == "ljmp":
                return "jmp" if is_imm else "ijmp"
            return "jcc"
        return "op"
    if isa == gtirb.Module.ISA.ARM64:
        m = insn.mnemonic
        if m == "ret":
            return "ret"
        if m == "bl":
            return "call"
        if m == "blr":
            return "icall"
        if m == "br":
            return "ijmp"
        if m == "b":
            return "jmp"
        if m.startswith("b.") or m in ("cbz", "cbnz", "tbz", "tbnz"):
            return "jcc"
        return "op"
    if isa == gtirb.Module.ISA.MIPS32:
        m = insn.mnemonic
        if m in ("jr",):
            return "ret" if "ra" in insn.op_str else "ijmp"
        if m in ("jal", "bal"):
            return "call"
        if m in ("jalr",):
            return "icall"
        if m in ("j", "b"):
            return "jmp"
        if m.startswith("b"):
            return "jcc"
        return "op"
    return "op"


# private-label prefixes of the module being projected (PE/IA32 uses "L"; the runner sets this
# per case before rendering)
TEMP_PREFIXES = (".L", "$")


def set_isa(isa: str) -> None:
    global TEMP_PREFIXES
    TEMP_PREFIXES = (".L", "$", "L") if isa == "ia32" else (".L", "$")


def base_name(name: str) -> str:
    """Temporary labels (.L*) lose their per-patch numeric suffix."""
    if name.startswith(TEMP_PREFIXES):
        return SUFFIX_RE.sub("", name)
    return name


def sx_desc(expr) -> list:
    """[kind, symbol, addend, attributes, symbol2, scale] (uniform shape)."""
    attrs = ",".join(sorted(a.name for a in expr.attributes))
    if isinstance(expr, gtirb.SymAddrConst):
        return ["C", base_name(expr.symbol.name), int(expr.offset), attrs, "", 0]
    if isinstance(expr, gtirb.SymAddrAddr):
        return ["A", base_name(expr.symbol1.name), int(expr.offset), attrs,
                base_name(expr.symbol2.name), int(expr.scale)]
    return ["?", type(expr).__name__, 0, attrs, "", 0]


def sx_symbols(expr) -> List[gtirb.Symbol]:
    return list(expr.symbols)


def _val(v):
    """Aux-data value -> JSON-safe (strings/ints/lists)."""
    if isinstance(v, (int, str)):
        return v
    if isinstance(v, bytes):
        return list(v)
    if isinstance(v, (list, tuple)):
        return [_val(x) for x in v]
    return repr(v)


class Projector:
    """Keeps the uuid -> small id table stable across the steps of a trace."""

    def __init__(self, module: gtirb.Module):
        self.module = module
        self.ids: Dict[object, int] = {}

    def uid(self, node) -> int:
        k = node.uuid
        if k not in self.ids:
            self.ids[k] = len(self.ids) + 1
        return self.ids[k]

    def section_layout(self, sec: gtirb.Section):
        bis = list(sec.byte_intervals)
        bis.sort(key=lambda b: (b.address if b.address is not None else 1 << 62))
        # stable for equal addresses: python sort is stable on insertion order
        base = {}
        data = b""
        for bi in bis:
            base[bi.uuid] = len(data)
            c = bytes(bi.contents)
            if len(c) < bi.size:
                c = c + b"\0" * (bi.size - len(c))
            data += c[: bi.size]
        return bis, base, data

    def project(self, cache=None) -> dict:
        m = self.module
        isa = m.isa
        dec = _decoder(isa)
        secs = sorted(m.sections, key=lambda s: s.name)
        blkpos: Dict[object, tuple] = {}
        out_secs = []
        fn_blocks = m.aux_data.get("functionBlocks")
        fn_entries = m.aux_data.get("functionEntries")
        fn_names = m.aux_data.get("functionNames")
        fn_of: Dict[object, List[str]] = {}
        entry_of: Dict[object, List[str]] = {}

        def fname(u):
            if fn_names is not None and u in fn_names.data:
                s = fn_names.data[u]
                return s.name if isinstance(s, gtirb.Symbol) else "?"
            return "?" + str(sorted(fn_blocks.data).index(u)) if fn_blocks else "?"

        if fn_blocks is not None:
            for u, bs in fn_blocks.data.items():
                for b in bs:
                    fn_of.setdefault(b.uuid, []).append(fname(u))
        if fn_entries is not None:
            for u, bs in fn_entries.data.items():
                for b in bs:
                    entry_of.setdefault(b.uuid, []).append(fname(u))

        def offmap(tdef):
            t = tdef.get(m)
            res: Dict[object, list] = {}
            if t:
                for off, v in t.items():
                    res.setdefault(off.element_id.uuid, []).append(
                        (off.displacement, v, off.element_id)
                    )
            return res

        tables = {
            "comments": offmap(_auxdata.comments),
            "padding": offmap(_auxdata.padding),
            "symbolic_expression_sizes": offmap(
                _auxdata.symbolic_expression_sizes
            ),
        }
        cfi = offmap(_auxdata.cfi_directives)
        align = _auxdata.alignment.get(m) or {}
        symnames = {s.uuid: s.name for s in m.symbols}
        refs: Dict[object, list] = {}
        for s in m.symbols:
            r = s.referent if s._payload is not None else None
            if isinstance(r, gtirb.Block):
                refs.setdefault(r.uuid, []).append(s)

        def cfi_rec(d):
            name, ops, u = d
            sym = symnames.get(u, "" if u == _auxdata.NULL_UUID else "?")
            return {"op": name[5:] if name.startswith(".cfi_") else name,
                    "args": [int(o) for o in ops if isinstance(o, int)][:8],
                    "sym": base_name(sym) if sym not in ("", "?") else sym,
                    "big": any(isinstance(o, int) and abs(o) >= 2**31 for o in ops)}

        def cfi_str(d):
            name, ops, u = d
            sym = symnames.get(u, "" if u == _auxdata.NULL_UUID else "?stale")
            return name + "(" + ",".join(str(o) for o in ops) + ")" + (
                "@" + sym if sym else ""
            )

        dangling = []
        for si, sec in enumerate(secs):
            bis, base, data = self.section_layout(sec)
            blocks = []
            for bi in bis:
                for b in bi.blocks:
                    blocks.append((base[bi.uuid] + b.offset, b.size != 0, self.uid(b), b))
            blocks.sort(key=lambda t: t[:3])
            oblocks = []
            iann = []
            for bi in bis:
                for tname, tmap in tables.items():
                    for disp, v, _ in tmap.get(bi.uuid, []):
                        iann.append({"p": base[bi.uuid] + disp, "t": tname,
                                     "v": _val(v), "ok": 0 <= disp <= bi.size})
                for disp, v, _ in cfi.get(bi.uuid, []):
                    iann.append({"p": base[bi.uuid] + disp, "t": "cfi",
                                 "v": [cfi_str(d) for d in v], "ok": False})
            for p, _, u, b in blocks:
                blkpos[b.uuid] = (sec.name, p, b.size)
                bi = b.byte_interval
                inside = 0 <= b.offset and b.offset + b.size <= bi.size
                raw = data[p : p + b.size]
                units = []
                if isinstance(b, gtirb.CodeBlock) and b.size:
                    o = 0
                    for insn in dec.get_instructions(b):
                        units.append({"o": o, "n": insn.size,
                                      "k": classify(insn, isa)})
                        o += insn.size
                    if o != b.size:
                        units.append({"o": o, "n": b.size - o, "k": "bad"})
                elif b.size:
                    for i in range(b.size):
                        units.append({"o": i, "n": 1, "k": "data"})
                sxs = []
                for off in range(b.offset, b.offset + b.size):
                    e = bi.symbolic_expressions.get(off)
                    if e is not None:
                        okk = all(s.module is m for s in sx_symbols(e))
                        sxs.append({"o": off - b.offset, "d": sx_desc(e), "ok": okk})
                for un in units:
                    tg = ""
                    for x in sxs:
                        if un["o"] <= x["o"] < un["o"] + un["n"]:
                            tg = x["d"][1]
                            break
                    un["tg"] = tg
                    un["tgb"] = base_name(tg)
                    un["by"] = list(raw[un["o"] : un["o"] + un["n"]])
                ann = []
                for tname, tmap in tables.items():
                    for disp, v, _ in tmap.get(b.uuid, []):
                        ann.append({"d": disp, "t": tname, "v": _val(v)})
                ann.sort(key=lambda a: (a["d"], a["t"]))
                cf = [
                    {"d": disp, "v": [cfi_str(d) for d in v], "ds": [cfi_rec(d) for d in v]}
                    for disp, v, _ in sorted(cfi.get(b.uuid, []), key=lambda t: t[0])
                ]
                ss, es = [], []
                for s in refs.get(b.uuid, []):
                    (es if s.at_end else ss).append(s.name)
                oblocks.append({
                    "u": u, "k": "code" if isinstance(b, gtirb.CodeBlock) else "data",
                    "p": p, "n": b.size, "units": units, "ss": sorted(ss),
                    "es": sorted(es), "fn": sorted(fn_of.get(b.uuid, [])),
                    "ent": sorted(entry_of.get(b.uuid, [])), "sx": sxs,
                    "ann": ann, "cfi": cf, "al": int(align.get(b, 0)),
                    "inside": inside,
                    "addr": b.address if b.address is not None else -1,
                })
            iann.sort(key=lambda a: (a["p"], a["t"]))
            # bytes that no block covers (filler in front of / between blocks)
            gaps = []
            for bi in bis:
                cov = bytearray(bi.size)
                for b in bi.blocks:
                    lo, hi = max(b.offset, 0), min(b.offset + b.size, bi.size)
                    if lo < hi:
                        cov[lo:hi] = b"\1" * (hi - lo)
                o = 0
                while o < bi.size:
                    if cov[o]:
                        o += 1
                        continue
                    e = o
                    while e < bi.size and not cov[e]:
                        e += 1
                    gp = base[bi.uuid] + o
                    gaps.append({"u": 900000 + len(gaps) + 1000 * len(out_secs), "p": gp,
                                 "by": list(data[gp : gp + e - o])})
                    o = e
            gaps.sort(key=lambda g: g["p"])
            # expressions outside any block / outside interval
            sx_out = []
            for bi in bis:
                for off, e in bi.symbolic_expressions.items():
                    if not (0 <= off < bi.size):
                        sx_out.append({"p": base[bi.uuid] + off, "d": sx_desc(e)})
            out_secs.append({
                "name": sec.name, "size": len(data), "bytes": list(data),
                "blocks": oblocks,
                "iann": iann, "sxout": sx_out, "gaps": gaps,
                "nbi": len(bis), "noaddr": sum(1 for bi in bis if bi.address is None),
            })

        # proxies
        proxy_names: Dict[object, str] = {}
        for pb in m.proxies:
            names = sorted(s.name for s in refs.get(pb.uuid, []))
            proxy_names[pb.uuid] = "P:" + ",".join(names) if names else "P:"

        def node_desc(n):
            """[kind, section, pos, size, names]; names = symbols on a proxy."""
            if isinstance(n, gtirb.ProxyBlock):
                names = sorted(base_name(s.name) for s in refs.get(n.uuid, []))
                if n.uuid in proxy_names:
                    return ["proxy", proxy_names[n.uuid], 0, 0, names]
                return ["stale_proxy", ",".join(names), 0, 0, names]
            if n.uuid in blkpos:
                s, p, sz = blkpos[n.uuid]
                return ["blk", s, p, sz, []]
            return ["stale", "", 0, 0, []]

        edges = []
        for e in m.ir.cfg:
            # an IR may hold several modules: edges between nodes of another module
            # belong to that module's projection
            om = getattr(e.source, "module", None)
            tm = getattr(e.target, "module", None)
            if om is not None and om is not m and (tm is None or tm is not m):
                continue
            lab = e.label
            edges.append({
                "s": node_desc(e.source), "t": node_desc(e.target),
                "ty": lab.type.name if lab else "None",
                "c": bool(lab.conditional) if lab else False,
                "d": bool(lab.direct) if lab else True,
            })
        edges.sort(key=lambda e: (e["s"], e["ty"], e["t"], e["c"], e["d"]))

        syms = []
        for s in m.symbols:
            if s._payload is None:
                syms.append({"n": s.name, "k": "none", "s": "", "p": 0, "e": False})
                continue
            r = s._payload
            if isinstance(r, gtirb.ProxyBlock):
                k = "proxy" if r.uuid in proxy_names else "stale_proxy"
                syms.append({"n": s.name, "k": k, "s": "", "p": 0, "e": False})
            elif isinstance(r, gtirb.ByteBlock):
                if r.uuid in blkpos:
                    sn, p, sz = blkpos[r.uuid]
                    syms.append({"n": s.name, "k": "blk", "s": sn,
                                 "p": p + (sz if s.at_end else 0),
                                 "e": bool(s.at_end)})
                else:
                    syms.append({"n": s.name, "k": "stale", "s": "", "p": 0, "e": False})
            else:
                syms.append({"n": s.name, "k": "int", "s": "", "p": int(r), "e": False})
        for d in syms:
            d["b"] = base_name(d["n"])
        syms.sort(key=lambda d: d["n"])

        fns = []
        if fn_blocks is not None:
            keys = set(fn_blocks.data)
            if fn_entries is not None:
                keys |= set(fn_entries.data)
            if fn_names is not None:
                keys |= set(fn_names.data)
            for u in keys:
                stale = 0

                def bl(tab):
                    nonlocal stale
                    if tab is None or u not in tab.data:
                        return []
                    out = []
                    for b in tab.data[u]:
                        if b.uuid in blkpos:
                            out.append(list(blkpos[b.uuid][:2]))
                        else:
                            stale += 1
                    return sorted(out)

                nm = "?missing"
                if fn_names is not None and u in fn_names.data:
                    s = fn_names.data[u]
                    nm = s.name if getattr(s, "module", None) is m else "?stale"
                fns.append({
                    "name": nm, "blocks": bl(fn_blocks), "entries": bl(fn_entries),
                    "hasb": fn_blocks is not None and u in fn_blocks.data,
                    "hase": fn_entries is not None and u in fn_entries.data,
                    "hasn": fn_names is not None and u in fn_names.data,
                    "stale": stale,
                })
            fns.sort(key=lambda f: (f["name"], f["blocks"]))
        ep = m.entry_point
        st = {
            "secs": out_secs, "syms": syms, "edges": edges, "fns": fns,
            "entry": node_desc(ep) if ep is not None else ["none", "", 0, 0, []],
            "nproxies": len(m.proxies),
        }
        return st


def _node_in_module(n, m: gtirb.Module) -> bool:
    if isinstance(n, gtirb.ProxyBlock):
        return n in m.proxies
    if isinstance(n, gtirb.Symbol):
        return n.module is m and n in m.symbols
    if isinstance(n, gtirb.ByteBlock):
        return n.module is m and n.byte_interval is not None and n in n.byte_interval.blocks
    if isinstance(n, gtirb.ByteInterval):
        return n.module is m
    if isinstance(n, gtirb.Section):
        return n.module is m
    if isinstance(n, gtirb.Module):
        return n is m
    return True


def closure_report(m: gtirb.Module) -> list:
    """For every aux-data table: how many node references point outside the
    module (stale blocks / symbols / proxies / unknown UUIDs)."""
    import uuid as _uuid

    out = []
    ir = m.ir

    def walk(v, acc):
        if isinstance(v, gtirb.Node):
            acc[0] += 1
            if not _node_in_module(v, m):
                acc[1] += 1
        elif isinstance(v, gtirb.Offset):
            walk(v.element_id, acc)
        elif isinstance(v, _uuid.UUID):
            if v != _auxdata.NULL_UUID and v.int != 0:
                n = ir.get_by_uuid(v) if ir is not None else None
                if n is not None:
                    acc[0] += 1
                    if not _node_in_module(n, m):
                        acc[1] += 1
        elif isinstance(v, dict) or hasattr(v, "items"):
            for k, x in v.items():
                walk(k, acc)
                walk(x, acc)
        elif isinstance(v, (list, tuple, set, frozenset)):
            for x in v:
                walk(x, acc)

    for name in sorted(m.aux_data):
        acc = [0, 0]
        try:
            walk(m.aux_data[name].data, acc)
        except Exception:
            acc[1] += 1
        out.append({"t": name, "refs": acc[0], "stale": acc[1]})
    return out


def canonical(st: dict) -> dict:
    """Projection without block ids / addresses (for equality across reload)."""
    import copy

    c = copy.deepcopy(st)
    for sec in c["secs"]:
        for b in sec["blocks"]:
            b.pop("u", None)
            b.pop("addr", None)
        for g in sec.get("gaps", []):
            g.pop("u", None)
        # The IR defines no order among zero-sized blocks at one position (nor which of
        # them is "the next block"): they are compared as one block carrying all their
        # labels, functions, entries and annotations.
        merged = []
        for b in sec["blocks"]:
            if (merged and b["n"] == 0 and merged[-1]["n"] == 0 and merged[-1]["p"] == b["p"]
                    and merged[-1]["k"] == b["k"]):
                m = merged[-1]
                for key in ("ss", "es", "fn", "ent"):
                    m[key] = sorted(set(m.get(key, [])) | set(b.get(key, [])))
                for key in ("ann", "cfi", "sx"):
                    m[key] = sorted(m.get(key, []) + b.get(key, []), key=lambda x: json.dumps(x, sort_keys=True))
            else:
                merged.append(b)
        sec["blocks"] = merged
    c.pop("whole", None)
    return c


def whole_ir_report(m: gtirb.Module, orig_cfg=None) -> dict:
    """Observer facts for the whole-IR validator (C05): aux-data closure,
    addresses, protobuf round trip (done here, judged in TLA+)."""
    import hashlib
    import io
    import json as _json

    rep = {"aux": closure_report(m)}
    rep["noaddr"] = sum(1 for b in m.byte_blocks if b.address is None)
    rep["cfg_same_obj"] = (orig_cfg is None) or (m.ir.cfg is orig_cfg)
    rep["cfg_type"] = type(m.ir.cfg).__name__
    rep["proxies_in_cfg_not_in_module"] = sum(
        1 for e in m.ir.cfg for n in (e.source, e.target)
        if isinstance(n, gtirb.ProxyBlock) and n not in m.proxies
        and (n.module is None or n.module is m))
    rep["sym_proxy_not_in_module"] = sum(
        1 for s in m.symbols
        if isinstance(s._payload, gtirb.ProxyBlock) and s._payload not in m.proxies)
    before = canonical(Projector(m).project())
    h1 = hashlib.sha1(_json.dumps(before, sort_keys=True).encode()).hexdigest()
    ok, h2, err = True, "", ""
    try:
        buf = io.BytesIO()
        m.ir.save_protobuf_file(buf)
        buf.seek(0)
        ir2 = gtirb.IR.load_protobuf_file(buf)
        m2 = next(x for x in ir2.modules if x.name == m.name)
        after = canonical(Projector(m2).project())
        h2 = hashlib.sha1(_json.dumps(after, sort_keys=True).encode()).hexdigest()
    except Exception as e:  # observed
        ok = False
        err = type(e).__name__
    rep["ser_ok"] = ok
    rep["ser_err"] = err
    rep["h1"] = h1
    rep["h2"] = h2
    return rep
