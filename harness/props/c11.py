"""C11 determinism: every selected case (from the TLC-explored shape x batch
space) is executed in fresh processes under different PYTHONHASHSEED values and
under admissible permutations of the registration order; TLC judges that all
canonical finals of a case are equal (spec/TraceDet.tla).  The order-
independence part of the design (Edit never looks at application order; batch =
sequential) is model-checked in GenG1.tla / Listing.tla."""
import json
import os
import random
from typing import Dict, List

from .. import core, tlc
from ..core import Report
from . import g1

CONFIGS = {"quick": ["GenG1_cfg_q.cfg", "GenG1_syms_q.cfg", "GenG1_cfi_q.cfg", "GenG1_zero_q.cfg",
                     "GenG1_cfg_arm64_q.cfg"],
           "thorough": ["GenG1_cfg_t.cfg", "GenG1_syms_t.cfg", "GenG1_fn_q.cfg", "GenG1_cfi_q.cfg", "GenG1_ann_q.cfg", "GenG1_zero_q.cfg",
                        "GenG1_cfg_arm64_q.cfg", "GenG1_cfg_ia32_q.cfg"]}
NCASES = {"quick": 400, "thorough": 3000}
SEEDS = {"quick": [0, 1, 7, 4242], "thorough": [0, 1, 2, 3, 5, 7, 11, 13, 17, 19, 23, 4242, 99991, 123456, 31337, 65537]}
PERMS = {"quick": 2, "thorough": 3}


def admissible_order(reqs: List[dict], rng: random.Random) -> List[int]:
    """A permutation of the registration order that keeps the relative order of
    requests anchored at the same (section, block, offset)."""
    idx = list(range(len(reqs)))
    rng.shuffle(idx)
    groups: Dict[tuple, List[int]] = {}
    for i in range(len(reqs)):
        groups.setdefault((reqs[i]["sec"], reqs[i]["blk"], reqs[i]["off"]), []).append(i)
    out = []
    taken: Dict[tuple, int] = {}
    for i in idx:
        k = (reqs[i]["sec"], reqs[i]["blk"], reqs[i]["off"])
        j = taken.get(k, 0)
        out.append(groups[k][j])
        taken[k] = j + 1
    return out


def run(prop: str, tier: str, replay: str = None) -> int:
    rep = Report(prop, tier)
    rng = random.Random(core.seed() * 7919 + 11)
    wd = tlc.workdir(prop)
    try:
        base = os.path.join(wd, "base.ndjson")
        if replay:
            with open(replay) as f:
                rec = json.load(f)
            with open(base, "w") as out:
                out.write(json.dumps(rec["case"]) + "\n")
        else:
            # every configuration gets an equal share of the cases
            cfgs = CONFIGS[tier]
            with open(base, "w") as agg:
                for ci, cfg in enumerate(cfgs):
                    part = os.path.join(wd, "part.ndjson")
                    res = tlc.generate("GenG1.tla", cfg, "CASE", part,
                                       timeout=1800 if tier == "thorough" else 900)
                    res["ok"] = True
                    rep.add_mc(cfg, res)
                    nonempty = os.path.join(wd, "nonempty.ndjson")
                    with open(part) as f, open(nonempty, "w") as out:
                        for line in f:
                            if len(json.loads(line)["reqs"]) >= 1:
                                out.write(line)
                    picked = os.path.join(wd, "picked.ndjson")
                    g1.sample_cases(nonempty, picked, NCASES[tier] // len(cfgs), rng, f"{prop}-{ci}" if ci else prop)
                    with open(picked) as f:
                        for line in f:
                            agg.write(line)
                    for x in (part, nonempty, picked):
                        os.remove(x)
        # variants: registration permutations
        variants = os.path.join(wd, "variants.ndjson")
        cases = {}
        with open(base) as f, open(variants, "w") as out:
            for line in f:
                c = json.loads(line)
                c.pop("order", None)
                # every third case wraps its patches in a generated prologue/epilogue
                # (caller-saved registers preserved, scratch registers, flags)
                if len(cases) % 3 == 1 and c["shape"].get("isa", "x64") == "x64":
                    for rq in c["reqs"]:
                        if rq.get("patch", {}).get("kind"):
                            rq["patch"]["cons"] = {"preserve_caller_saved_registers": True,
                                                   "scratch_registers": 2, "clobbers_flags": True,
                                                   "clobbers_registers": ["rcx", "rdx"]}
                # ARM64: two of three cases, alternately without scratch registers (the flags
                # then go through a register the generator has to choose itself) and with one
                if len(cases) % 3 != 1 and c["shape"].get("isa", "x64") == "arm64":
                    for rq in c["reqs"]:
                        if rq.get("patch", {}).get("kind"):
                            rq["patch"]["cons"] = {"clobbers_flags": True,
                                                   "scratch_registers": 0 if len(cases) % 3 == 0 else 1,
                                                   "clobbers_registers": ["x0", "x1", "x2", "x30"]}
                cases[c["id"]] = c
                for p in range(PERMS[tier]):
                    d = dict(c)
                    d["base"] = c["id"]
                    d["variant"] = f"perm{p}"
                    d["order"] = (list(range(len(c["reqs"]))) if p == 0
                                  else admissible_order(c["reqs"], rng))
                    d["id"] = f"{c['id']}-p{p}"
                    # aux-data tables are mappings: the order in which the renderer fills
                    # them (ascending / descending displacement) must not matter either
                    d["shape"] = dict(c["shape"], ann_order="desc" if p % 2 else "asc")
                    out.write(json.dumps(d, separators=(",", ":")) + "\n")
        runs: Dict[str, list] = {}
        shards = core.split_file(variants, 4, wd, "det")
        for hs in SEEDS[tier]:
            outs = core.run_module_parallel(
                "harness.g1.runner", shards, wd, f"det{hs}",
                extra_env={"PYTHONHASHSEED": str(hs), "VERIF_G1_MODE": "det"})
            for of in outs:
                with open(of) as f:
                    for line in f:
                        r = json.loads(line)
                        runs.setdefault(r["base"], []).append(r)
                os.remove(of)
        traces = os.path.join(wd, "det_traces.ndjson")
        with open(traces, "w") as out:
            for cid, rs in runs.items():
                rs.sort(key=lambda r: (r["variant"], r["hashseed"]))
                out.write(json.dumps({"id": cid, "runs": rs}, separators=(",", ":")) + "\n")
        tshards = core.split_file(traces, 8, wd, "dtr")
        verdicts = tlc.validate_sharded("TraceDet.tla", "TraceDet.cfg", tshards, jobs=8)
        for v in verdicts:
            rep.traces += len(runs.get(v["id"], []))
            rep.evaluations += 1
            for c in v["indomain"]:
                rep.count_clause(c)
            case = cases.get(v["id"], {"id": v["id"]})
            if v["indomain"]:
                rep.nontrivial.add(core.case_hash(case))
            if len(rep.samples) < 3:
                rep.samples.append({"case": case, "runs": len(runs.get(v["id"], [])),
                                    "hash_seeds": SEEDS[tier], "permutations": PERMS[tier]})
            for fl in v["failed"]:
                path = core.write_replay(prop, fl["clause"], case, fl.get("diff"))
                rep.violations.append({"clause": fl["clause"], "case_id": v["id"],
                                       "diff": fl.get("diff"), "replay": path})
        rep.rule = ("cases = states of GenG1.tla with a non-empty batch, sampled by seed; each is run "
                    f"under {len(SEEDS[tier])} PYTHONHASHSEED values x {PERMS[tier]} admissible registration "
                    "orders in fresh processes (fresh UUIDs); non-trivial = at least 2 runs compared; "
                    "traces_validated_against_impl counts individual runs")
        rep.assumptions = [
            "hash-order nondeterminism can only be sampled (seeds above); the TLA+ side contributes the "
            "order-independence theorems of the listing semantics and the judgement",
            "canonical form = projection without UUID-derived ids and addresses",
        ]
        return rep.finish(write_evidence=not replay)
    finally:
        tlc.cleanup(wd)
