"""PassManager stage of the listing-group checks (growth beyond the listed
properties): spec/Passes.tla is model checked, pairs of the check's own cases are
run as two-module IRs through the real PassManager with 0-3 recording passes
(harness/passes/runner.py), and spec/TracePasses.tla consumes every recorded run
event by event with the guard/effect operators of Passes.tla and the frame
conditions on the module digests.  Each module's apply() is judged by the clauses
of the listing group like any other observed apply(): failures of the check's own
clauses are violations of the property; a rejected protocol trace is reported as
SPEC-DRIFT (the protocol is not one of the listed properties)."""
import json
import os
import random
from typing import Dict, List

from .. import core, tlc
from ..core import Report

RUNS = {"quick": 120, "thorough": 1500}


def eligible(c: dict) -> bool:
    return (c.get("reqs") and not any(r["op"] == "insall" for r in c["reqs"])
            and c.get("insfn", "none") in ("none", "") and not c.get("retarget")
            and not c.get("fault"))


def build_cases(cases_path: str, dst: str, n: int, rng: random.Random, prop: str) -> Dict[str, dict]:
    pool = []
    with open(cases_path) as f:
        for line in f:
            if line.strip():
                c = json.loads(line)
                if eligible(c):
                    pool.append(c)
    out: Dict[str, dict] = {}
    if not pool:
        return out
    with open(dst, "w") as f:
        for k in range(n):
            a, b = rng.choice(pool), rng.choice(pool)
            np_ = rng.choice([0, 1, 2, 2, 3])
            pc = {"id": f"{prop}-PM-{k}", "np": np_, "mods": [a, b],
                  "assign": [[rng.randint(1, max(np_, 1)) for _ in c["reqs"]] for c in (a, b)],
                  "fault": 0}
            if np_ > 0 and k % 6 == 4:
                pc["fault"] = [rng.choice(["begin", "end"]), rng.randint(1, np_), rng.randint(1, 2)]
            out[pc["id"]] = pc
            f.write(json.dumps(pc, separators=(",", ":")) + "\n")
    return out


def stage(rep: Report, wd: str, cases_path: str, tier: str, rng: random.Random, prop: str,
          judge_modules) -> None:
    res = tlc.model_check("Passes.tla", "Passes_q.cfg", timeout=900, workers=4)
    rep.add_mc("Passes.tla/Passes_q.cfg", res)
    pmcases = os.path.join(wd, "pm_cases.ndjson")
    by_id = build_cases(cases_path, pmcases, RUNS[tier], rng, prop)
    if not by_id:
        rep.extra["pass_manager"] = {"runs": 0}
        return
    shards = core.split_file(pmcases, 8, wd, "pmc")
    traces = core.run_module_parallel("harness.passes.runner", shards, wd, "pm")
    verdicts = tlc.validate_sharded("TracePasses.tla", "TracePasses.cfg", traces, jobs=8)
    rejected = [v for v in verdicts if not (v["accepted"] and v["regsOk"] and v["abortOk"])]
    mod_verdicts: List[dict] = []
    case_by_id = {}
    for v in verdicts:
        pc = by_id.get(v["id"], {})
        for i, mv in enumerate(v["mods"]):
            mod_verdicts.append(mv)
            if pc:
                case_by_id[mv["id"]] = {"id": mv["id"], "pm_case": pc}
    judge_modules(rep, prop, mod_verdicts, case_by_id)
    rep.extra["pass_manager"] = {
        "spec": "spec/Passes.tla (model checked: Passes_q.cfg), spec/TracePasses.tla",
        "runs": len(verdicts), "accepted": len(verdicts) - len(rejected),
        "aborted_runs": sum(1 for v in verdicts if v["phase"] == "aborted"),
        "events_consumed": sum(v["consumed"] for v in verdicts),
        "module_applies_judged": len(mod_verdicts),
        "rejected_samples": [{"id": v["id"], "rej": v["rej"], "phase": v["phase"],
                              "regsOk": v["regsOk"], "abortOk": v["abortOk"]} for v in rejected[:5]],
    }
    for v in rejected[:3]:
        print(f"SPEC-DRIFT {prop}: PassManager run {v['id']} is not a behaviour of spec/Passes.tla "
              f"(information only): {v['rej']} phase={v['phase']} regsOk={v['regsOk']} abortOk={v['abortOk']}")


def replay(rep: Report, wd: str, pc: dict, prop: str, judge_modules) -> None:
    """Re-runs one recorded PassManager case (from a replay file)."""
    pmcases = os.path.join(wd, "pm_cases.ndjson")
    with open(pmcases, "w") as f:
        f.write(json.dumps(pc, separators=(",", ":")) + "\n")
    traces = core.run_module_parallel("harness.passes.runner", [pmcases], wd, "pm")
    verdicts = tlc.validate_sharded("TracePasses.tla", "TracePasses.cfg", traces, jobs=1)
    mods, by_id = [], {}
    for v in verdicts:
        for mv in v["mods"]:
            mods.append(mv)
            by_id[mv["id"]] = {"id": mv["id"], "pm_case": pc}
    judge_modules(rep, prop, mods, by_id)
