"""C14 - DWARF expression / CFI encodings round-trip and match the standard.

spec/Dwarf.tla is an independent DWARF v4 codec (opcode tables from the
standard, LEB128 on bit sequences, fixed-width two's complement in both byte
orders, address size 4/8, opcodes with an embedded operand, expression blocks,
shortest constant operation).  TLC model-checks its codec theorems on every
state of the encoder/decoder session and prints every state as a case; the
cases (plus seeded random perturbations of their operand values) are replayed
into the real gtirb_rewriting.dwarf codec by harness/dwarf/runner.py and the
observed bytes / objects / lengths / exception types are judged by TLC
(spec/TraceDwarf.tla)."""
import json
import os
import random
from typing import Dict, List

from .. import core, tlc
from ..core import Report

CONFIGS = {"quick": "Dwarf_q.cfg", "thorough": "Dwarf_t.cfg"}
TLC_TIMEOUT = {"quick": 300, "thorough": 1500}
# seeded random inputs added to the TLC-generated cases (inputs only; the
# expected results of these cases are computed by TraceDwarf.tla as well)
RANDOM_CONST = {"quick": 2000, "thorough": 20000}
RANDOM_ITEMS = {"quick": 4000, "thorough": 40000}
JOBS = int(os.environ.get("VERIF_JOBS", "16"))          # JVMs / runner processes (upper bound)
TIER_JOBS = {"quick": 8, "thorough": 16}                 # one JVM start costs about as much as 5000 traces
WORKERS = int(os.environ.get("VERIF_TLC_WORKERS", "16"))  # TLC workers of the MC run

# Findings reported with this check and not (yet) recorded in
# /verif/known_findings.json (shared file, not written by this group).  An
# entry of known_findings.json with the same id takes precedence.
LOCAL_KNOWN = [
    {
        "id": "KF-C14-1",
        "status": "open",
        "property": "C14",
        "clauses": ["C14_GtirbForm"],
        "signature": "spec/TraceDwarf.tla: ItemJ.kf1 - directive other than .cfi_escape, "
                     "form re-encodes to the expected bytes, an operand >= 2^63, GTIRB "
                     "refuses to serialize the form",
        "what": "Instruction.gtirb_encoding hands operands >= 2^63 of non-escape directives "
                "(.cfi_def_cfa, .cfi_register, ...) to GTIRB, whose cfiDirectives operand "
                "type is int64: saving the IR raises OverflowError",
        "repro": "findings/KF-C14-1/repro.py",
    },
]


def rand_val(rng: random.Random) -> dict:
    """A random integer as sign + little-endian magnitude bits; bit lengths
    uniform in 0..66 so that every encoder range is hit from both sides."""
    n = rng.randrange(0, 67)
    bits = [rng.randrange(2) for _ in range(n)]
    if bits:
        bits[-1] = 1
    return {"s": 1 if bits and rng.random() < 0.35 else 0, "m": bits}


def perturb(item: dict, rng: random.Random) -> dict:
    return {"c": item["c"], "a": [rand_val(rng) for _ in item["a"]],
            "e": [perturb(o, rng) for o in item["e"]]}


def build_cases(generated: str, dest: str, tier: str, rng: random.Random) -> int:
    """ids for the generated cases; random const cases; random operand values
    in copies of generated single-item cases."""
    n = 0
    singles: List[str] = []
    template = None
    with open(generated) as f, open(dest, "w") as out:
        for line in f:
            c = json.loads(line)
            c["id"] = f"C14-{n}"
            n += 1
            out.write(json.dumps(c, separators=(",", ":")) + "\n")
            if c["kind"] == "enc" and len(c["xs"]) == 1 and (c["xs"][0]["a"] or c["xs"][0]["e"]):
                singles.append(line)
            if template is None and c["kind"] == "const":
                template = c
        if template is not None:
            for _ in range(RANDOM_CONST[tier]):
                c = dict(template)
                c.update({"id": f"C14-r{n}", "v": rand_val(rng),
                          "bo": rng.choice(["little", "big"]), "ps": rng.choice([4, 8])})
                n += 1
                out.write(json.dumps(c, separators=(",", ":")) + "\n")
        if singles:
            for _ in range(RANDOM_ITEMS[tier]):
                c = json.loads(rng.choice(singles))
                c["id"] = f"C14-r{n}"
                c["xs"] = [perturb(c["xs"][0], rng)]
                n += 1
                out.write(json.dumps(c, separators=(",", ":")) + "\n")
    return n


def case_key(case: dict) -> str:
    c = dict(case)
    c.pop("id", None)
    return core.case_hash(c)


def run(prop: str, tier: str, replay: str = None) -> int:
    rep = Report(prop, tier)
    rng = random.Random(core.seed() * 1000003 + 14)
    wd = tlc.workdir(prop)
    try:
        cases = os.path.join(wd, "cases.ndjson")
        if replay:
            with open(replay) as f:
                rec = json.load(f)
            with open(cases, "w") as out:
                out.write(json.dumps(rec["case"]) + "\n")
        else:
            gen = os.path.join(wd, "generated.ndjson")
            cfg = CONFIGS[tier]
            # one TLC run: model checking of the codec theorems (INVARIANT Inv)
            # and emission of every state as a case
            res = tlc.generate("Dwarf.tla", cfg, "CASE", gen, timeout=TLC_TIMEOUT[tier],
                               workers=WORKERS)
            if res["emitted"] != res["distinct"] - 1:
                raise core.MachineryError(
                    f"Dwarf.tla/{cfg}: {res['emitted']} cases for {res['distinct']} states")
            rep.add_mc(cfg, res)
            rep.extra["generated_cases"] = res["emitted"]
            total = build_cases(gen, cases, tier, rng)
            rep.extra["random_cases"] = total - res["emitted"]
            os.remove(gen)
        jobs = min(JOBS, TIER_JOBS[tier])
        shards = core.split_file(cases, jobs, wd, "cases")
        traces = core.run_module_parallel("harness.dwarf.runner", shards, wd, "dwarf")
        verdicts = tlc.validate_sharded("TraceDwarf.tla", "TraceDwarf.cfg", traces, jobs=jobs,
                                        timeout=1500)
        case_by_id: Dict[str, dict] = {}
        with open(cases) as f:
            for line in f:
                c = json.loads(line)
                case_by_id[c["id"]] = c
        judge(rep, prop, verdicts, case_by_id)
        rep.rule = ("cases = every state of the session of Dwarf.tla (one item of every modelled "
                    "class x boundary operand values x byte order x address size; every first "
                    "byte x operand paddings; instruction streams over a small alphabet; "
                    "constants for the chooser) plus seeded random operand values in copies of "
                    "those cases; non-trivial = at least one C14_* clause in its domain; "
                    "distinct by the whole case (kind, class, operand values, byte order, "
                    "address size, bytes)")
        rep.assumptions = [
            "the class binding table of harness/dwarf/runner.py (DW_* name -> library class, "
            "operands in declaration order) is the intended correspondence",
            "directive semantics in DirBytes are those of GNU as (.cfi_def_cfa, .cfi_register, "
            ".cfi_restore, ...); the real assembler is not run here",
            "gtirb's aux data serializer is the observer of what can be handed to GTIRB",
            "operand values are boundary-sampled (+-(2^k-1), +-2^k, +-(2^k+1) for the k of the "
            "config, 0, +-1) and randomly sampled, not all of [-2^63, 2^64)",
            "truncated or malformed input (bytes ending inside an item, operations crossing the "
            "end of their block) and opcodes the library does not model are outside the clauses",
        ]
        rep.exhaustive = False
        return rep.finish()
    finally:
        tlc.cleanup(wd)


def judge(rep: Report, prop: str, verdicts: List[dict], case_by_id: Dict[str, dict]) -> None:
    known = {k["id"]: k for k in LOCAL_KNOWN}
    known.update({k["id"]: k for k in core.load_known()})
    known = {i: k for i, k in known.items()
             if k.get("status") == "open" and k.get("property") == prop}
    pre = prop + "_"
    kinds: Dict[str, int] = {}
    out_of_domain = 0
    for v in verdicts:
        rep.traces += 1
        rep.evaluations += 1
        case = case_by_id.get(v["id"], {"id": v["id"]})
        kinds[case.get("kind", "?")] = kinds.get(case.get("kind", "?"), 0) + 1
        mine = [c for c in v["indomain"] if c.startswith(pre)]
        for c in mine:
            rep.count_clause(c)
        if mine:
            rep.nontrivial.add(case_key(case))
        else:
            out_of_domain += 1
        if len(rep.samples) < 4 and mine and (rep.traces % 997 == 1):
            rep.samples.append({"case": case, "in_domain": mine, "exception": v.get("exc", "")})
        for fl in v["failed"]:
            if not fl["clause"].startswith(pre):
                continue
            kfs = [k for k in fl.get("kf", []) if k in known]
            if kfs:
                rep.known_matched[kfs[0]] = rep.known_matched.get(kfs[0], 0) + 1
                continue
            path = core.write_replay(prop, fl["clause"], case, fl.get("diff"))
            rep.violations.append({"clause": fl["clause"], "case_id": v["id"],
                                   "diff": fl.get("diff"), "replay": path})
    rep.extra["cases_by_kind"] = kinds
    rep.extra["cases_out_of_every_domain"] = out_of_domain
    for kid in rep.known_matched:
        if not any(k["id"] == kid for k in core.load_known()):
            rep.notes.append(f"{kid} matched by its local signature; not yet in known_findings.json: "
                             + known[kid]["what"])
