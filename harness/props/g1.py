"""Checks of the listing-refinement group (C01 C02 C03 C04 C06 C08): TLC
explores the space of small modules and edit batches (GenG1.tla), checks the
design-level theorems of the listing semantics on every state and emits every
state as a case; the cases are replayed into the real RewritingContext and the
observed executions are judged by TLC against the Level-A clauses
(TraceG1.tla)."""
import json
import os
import random
from typing import Dict, List

from .. import core, tlc
from ..core import Report, MachineryError

# property -> (clause prefix, generation configs per tier)
CONFIGS = {
    "C01": {"quick": ["GenG1_bytes_q.cfg", "GenG1_cfg_ia32_q.cfg"], "thorough": ["GenG1_bytes_t.cfg", "GenG1_bytes_arm64.cfg", "GenG1_cfg_ia32_q.cfg"]},
    "C02": {"quick": ["GenG1_syms_q.cfg", "GenG1_cfg_arm64_q.cfg", "GenG1_alias_q.cfg"],
            "thorough": ["GenG1_syms_t.cfg", "GenG1_syms_arm64.cfg", "GenG1_cfg_ia32_q.cfg", "GenG1_alias_q.cfg"]},
    "C04": {"quick": ["GenG1_ann_q.cfg", "GenG1_cfi_q.cfg", "GenG1_cfimid_q.cfg"],
            "thorough": ["GenG1_ann_t.cfg", "GenG1_cfi_t.cfg", "GenG1_cfimid_q.cfg"]},
    "C06": {"quick": ["GenG1_fn_q.cfg", "GenG1_fndel_q.cfg"], "thorough": ["GenG1_fn_t.cfg", "GenG1_fndel_q.cfg"]},
    "C03": {"quick": ["GenG1_cfg_q.cfg", "GenG1_calls_q.cfg", "GenG1_calls2_q.cfg", "GenG1_cfg_arm64_q.cfg"],
            "thorough": ["GenG1_cfg_t.cfg", "GenG1_cfg_arm64.cfg", "GenG1_calls_q.cfg", "GenG1_calls2_q.cfg",
                         "GenG1_cfg_ia32_q.cfg"]},
    "C08": {"quick": ["GenG1_cfi_q.cfg", "GenG1_cfi3_q.cfg", "GenG1_cfimid_q.cfg"],
            "thorough": ["GenG1_cfi_t.cfg", "GenG1_cfi3_q.cfg", "GenG1_cfimid_q.cfg"]},
    "C09": {"quick": ["GenG1_batch_q.cfg", "GenG1_calls2_q.cfg", "GenG1_alias_q.cfg"],
            "thorough": ["GenG1_batch_t.cfg", "GenG1_cfg_q.cfg", "GenG1_calls_q.cfg", "GenG1_calls2_q.cfg",
                         "GenG1_alias_q.cfg"]},
    "C05": {"quick": ["GenG1_syms_q.cfg", "GenG1_cfg_q.cfg", "GenG1_align_q.cfg", "GenG1_shared_q.cfg"],
            "thorough": ["GenG1_syms_t.cfg", "GenG1_cfg_t.cfg", "GenG1_ann_q.cfg", "GenG1_align_q.cfg",
                         "GenG1_shared_q.cfg"]},
}
SAMPLE = {"quick": 3000, "thorough": 60000}
RULES = {
    "C01": "cases = states of GenG1 (shape x batch of <=k non-overlapping requests); non-trivial = batch non-empty, in the clause's domain and apply() completed; distinct = distinct (shape, batch, registration order)",
}


def sample_cases(src: str, dst: str, n: int, rng: random.Random, tag: str) -> int:
    """Seeded reservoir sample of n cases (all if fewer); assigns ids and a
    registration order."""
    chosen: List[str] = []
    k = 0
    with open(src) as f:
        for line in f:
            k += 1
            if len(chosen) < n:
                chosen.append(line)
            else:
                j = rng.randrange(k)
                if j < n:
                    chosen[j] = line
    with open(dst, "w") as out:
        for i, line in enumerate(chosen):
            c = json.loads(line)
            c["id"] = f"{tag}-{i}"
            order = list(range(len(c["reqs"])))
            if rng.random() < 0.5:
                rng.shuffle(order)
            c["order"] = order
            out.write(json.dumps(c, separators=(",", ":")) + "\n")
    return len(chosen)


def expand_faults(cases_path: str, rng: random.Random) -> int:
    """C05: every case with n patch invocations is also run n times with an
    exception injected into the k-th patch callback (k = 1..n), and once with
    a patch that does not assemble."""
    out = []
    with open(cases_path) as f:
        for line in f:
            c = json.loads(line)
            out.append(c)
            n = sum(1 for q in c["reqs"] if q["op"] in ("ins", "rep")
                    and q["patch"].get("kind") != "bytes")
            for k in range(1, n + 1):
                d = dict(c)
                d["id"] = f"{c['id']}-f{k}"
                d["fault"] = k
                out.append(d)
            if n:
                d = dict(c)
                d["id"] = f"{c['id']}-asm"
                d["fault"] = rng.randint(1, n)
                d["fault_kind"] = "asm"
                out.append(d)
    with open(cases_path, "w") as f:
        for c in out:
            f.write(json.dumps(c, separators=(",", ":")) + "\n")
    return len(out)


def mark(cases_path: str, flags: dict) -> None:
    lines = []
    with open(cases_path) as f:
        for line in f:
            c = json.loads(line)
            c.update(flags)
            lines.append(json.dumps(c, separators=(",", ":")))
    with open(cases_path, "w") as f:
        f.write("\n".join(lines) + "\n")


REPO_TESTS = ["tests/test_rewriting.py", "tests/test_deletions.py", "tests/test_retarget.py",
              "tests/test_scopes.py"]


def repo_test_traces(rep: Report, wd: str):
    """Second source of executions: the rewrites performed by the repository's own
    tests (the maintainers' hand-built set-ups: PE, safe SEH, entry points, CFI,
    MIPS, data patches ...), recorded by harness/repotests/plugin.py and judged by
    the same clauses under the same domain predicates."""
    import subprocess
    out = os.path.join(wd, "repo.traces.ndjson")
    raw = out + ".raw"
    env = dict(os.environ)
    env["GTIRB_REWRITING_VERIF"] = "1"
    env["VERIF_REPOTRACE"] = raw
    env["PYTHONPATH"] = tlc.VERIF + os.pathsep + env.get("PYTHONPATH", "")
    env.setdefault("PYTHONHASHSEED", "0")
    p = subprocess.run([core.PY, "-m", "pytest", "-q", "-p", "no:cacheprovider", "-p",
                        "harness.repotests.plugin"] + REPO_TESTS,
                       cwd="/repo", env=env, stdout=subprocess.PIPE, stderr=subprocess.STDOUT, text=True)
    n = skipped = 0
    if os.path.exists(raw):
        with open(raw) as f, open(out, "w") as o:
            for line in f:
                t = json.loads(line)
                if t.get("skip"):
                    skipped += 1
                    continue
                o.write(line)
                n += 1
    rep.extra["repo_test_traces"] = {"recorded": n, "not_judged_unsupported_feature": skipped,
                                     "pytest": p.stdout.strip().splitlines()[-1] if p.stdout.strip() else ""}
    return out if n else None


LEVELB = {"C02", "C03", "C06", "C09"}
PASSES = {"C01", "C02", "C04", "C05"}      # checks that also drive the PassManager over two-module IRs
LEVELB_CASES = {"quick": 300, "thorough": 3000}


def level_b_drift(rep: Report, wd: str, cases_path: str, tier: str, rng: random.Random) -> None:
    """Binds the implementation-shaped model (spec/Modify.tla) to the code: a
    subsample of the cases is run with the primitive observer (entry/exit hooks
    of split_block / join_blocks / remove_block) and spec/TraceModify.tla checks
    every observed primitive execution against the model.  Drift is reported in
    the evidence; it is never a verdict."""
    lines = [l for l in open(cases_path) if l.strip()]
    rng.shuffle(lines)
    sub = os.path.join(wd, "levelb_cases.ndjson")
    with open(sub, "w") as f:
        f.writelines(lines[:LEVELB_CASES[tier]])
    shards = core.split_file(sub, 8, wd, "lbc")
    outs = core.run_module_parallel("harness.g1.runner", shards, wd, "lb",
                                    extra_env={"VERIF_G1_MODE": "levelb"})
    merged = os.path.join(wd, "levelb_events.ndjson")
    with open(merged, "w") as out:
        for of in outs:
            with open(of) as f:
                out.writelines(f)
    tsh = core.split_file(merged, 8, wd, "lbe")
    verdicts = tlc.validate_sharded("TraceModify.tla", "TraceModify.cfg", tsh, jobs=8)
    drift = [v for v in verdicts if v["drift"]]
    by_op: Dict[str, int] = {}
    for v in verdicts:
        by_op[v["op"]] = by_op.get(v["op"], 0) + 1
    rep.extra["level_b"] = {
        "model": "spec/Modify.tla (split_block / join_blocks / remove_block)",
        "primitive_executions_validated": len(verdicts), "by_primitive": by_op,
        "drift": len(drift),
        "drift_samples": [{"id": v["id"], "op": v["op"], "fields": v["fields"]} for v in drift[:5]],
    }
    if drift:
        print(f"MODEL-DRIFT {rep.prop}: {len(drift)} of {len(verdicts)} primitive executions differ from "
              f"spec/Modify.tla (information only), e.g. {drift[0]['id']} {drift[0]['op']} {drift[0]['fields']}")


MODIFY_MC = {"quick": ("ModifyMC_q.cfg", 1500), "thorough": ("ModifyMC_t.cfg", 7200)}


def level_b_model_check(tier: str) -> dict:
    """U1 for the implementation-shaped model: TLC runs spec/Modify.tla's apply()
    on every (shape, batch) of the configuration and checks the Level-A clauses
    on the model's result (spec/ModifyMC.tla; known findings excused by the same
    signatures as in the trace checks)."""
    cfg, tmo = MODIFY_MC[tier]
    res = tlc.model_check("ModifyMC.tla", cfg, timeout=tmo, workers=4 if tier == "quick" else 8)
    res["config"] = cfg
    return res


def run(prop: str, tier: str, replay: str = None) -> int:
    rep = Report(prop, tier)
    rng = random.Random(core.seed() * 1000003 + hash(prop) % 1000)
    wd = tlc.workdir(prop)
    mc_future = None
    pool = None
    if prop in LEVELB and not replay:
        from concurrent.futures import ThreadPoolExecutor
        pool = ThreadPoolExecutor(max_workers=1)
        mc_future = pool.submit(level_b_model_check, tier)
    try:
        cases = os.path.join(wd, "cases.ndjson")
        if replay:
            with open(replay) as f:
                rec = json.load(f)
            if "pm_case" in rec["case"]:
                from . import passes
                passes.replay(rep, wd, rec["case"]["pm_case"], prop, judge)
                return rep.finish(write_evidence=False)
            with open(cases, "w") as out:
                out.write(json.dumps(rec["case"]) + "\n")
            n = 1
        else:
            # every generation config gets an equal share of the sample, so that a small
            # dedicated space is not crowded out by a large one
            cfgs = CONFIGS[prop][tier]
            total = SAMPLE[tier] // (2 if prop == "C05" else 1)
            n = 0
            with open(cases, "w") as agg:
                for ci, cfg in enumerate(cfgs):
                    part = os.path.join(wd, "part.ndjson")
                    res = tlc.generate("GenG1.tla", cfg, "CASE", part,
                                       timeout=2400 if tier == "thorough" else 900)
                    res["ok"] = True
                    rep.add_mc(cfg, res)
                    rep.extra.setdefault("generated_cases", 0)
                    rep.extra["generated_cases"] += res["emitted"]
                    picked = os.path.join(wd, "picked.ndjson")
                    quota = total // len(cfgs) + (total % len(cfgs) if ci == 0 else 0)
                    k = sample_cases(part, picked, quota, rng, f"{prop}-{ci}" if ci else prop)
                    with open(picked) as f:
                        for line in f:
                            agg.write(line)
                    n += k
                    os.remove(part)
                    os.remove(picked)
            if prop == "C05":
                n = expand_faults(cases, rng)
                rep.level = "fault_enumeration"
            if prop == "C09":
                mark(cases, {"observe": True, "sequential": True})
        shards = core.split_file(cases, 16, wd, "cases")
        traces = core.run_module_parallel("harness.g1.runner", shards, wd, "g1")
        if not replay:
            rt = repo_test_traces(rep, wd)
            if rt:
                traces.append(rt)
        verdicts = tlc.validate_sharded("TraceG1.tla", "TraceG1.cfg", traces, jobs=16)
        case_by_id = {}
        with open(cases) as f:
            for line in f:
                c = json.loads(line)
                case_by_id[c["id"]] = c
        judge(rep, prop, verdicts, case_by_id)
        if prop in PASSES and not replay:
            from . import passes
            passes.stage(rep, wd, cases, tier, rng, prop, judge)
        if prop in LEVELB and not replay:
            level_b_drift(rep, wd, cases, tier, rng)
            res = mc_future.result()
            rep.add_mc("ModifyMC.tla/" + res["config"], res)
            rep.extra["level_b"]["model_checked"] = {
                "spec": "spec/ModifyMC.tla", "config": res["config"],
                "invariants": ["Inv_Completes", "Inv_Bytes", "Inv_Syms", "Inv_Fn", "Inv_NoDeadEdges",
                               "Inv_PreCfg", "Inv_Cfg"],
                "distinct_states": res["distinct"], "result": "no invariant violated"}
        rep.rule = ("cases = states of GenG1.tla (shape x batch of non-overlapping requests) "
                    "sampled by seed; non-trivial = non-empty batch with at least one "
                    f"{prop}_* clause in its domain; distinct by (shape, batch, registration order)")
        rep.assumptions = [
            "capstone is the independent observer of instruction boundaries/kinds",
            "patch contents are taken from a standalone run of the assembler (validated by C12)",
            "gtirb / gtirb-layout are trusted substrate",
            "bounds of the generation config (see mc_runs)",
        ]
        return rep.finish(write_evidence=not replay)
    finally:
        if pool is not None:
            pool.shutdown(wait=True)
        tlc.cleanup(wd)


def judge(rep: Report, prop: str, verdicts: List[dict], case_by_id: Dict[str, dict]) -> None:
    known = {k["id"]: k for k in core.load_known() if k.get("status") == "open"
             and prop in k.get("properties", [k["property"]])}
    pre = prop + "_"
    for v in verdicts:
        rep.traces += 1
        rep.evaluations += 1
        case = case_by_id.get(v["id"], {"id": v["id"]})
        mine = [c for c in v["indomain"] if c.startswith(pre)]
        for c in mine:
            rep.count_clause(c)
        if mine and case.get("reqs"):
            rep.nontrivial.add(core.case_hash(case.get("shape", {})) + core.case_hash([case.get("reqs"), case.get("order")]))
        if len(rep.samples) < 3 and mine and case.get("reqs"):
            rep.samples.append({"case": case, "in_domain": mine, "exception": v.get("exc", "")})
        for fl in v["failed"]:
            if not fl["clause"].startswith(pre):
                continue
            kfs = fl.get("kf", [])
            if kfs and all(k in known for k in kfs):
                for k in kfs:
                    rep.known_matched[k] = rep.known_matched.get(k, 0) + 1
                continue
            path = core.write_replay(prop, fl["clause"], case, fl.get("diff"))
            rep.violations.append({"clause": fl["clause"], "case_id": v["id"],
                                   "diff": fl.get("diff"), "replay": path})
