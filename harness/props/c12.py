"""Checks of the assembler group (C12: bytes, blocks and CFG match the text;
C13: symbol discipline and incremental assembly).

TLC model-checks the streaming assembler (spec/Asm.tla: one action per
streamer callback, Finalize = the three passes) over all token sequences of
the configured vocabularies, checks the Level A clauses on the model's own
results and the chunked-vs-whole invariant, and emits every explored program
as a case.  The cases are rendered for a target (ISA x file format x syntax,
pairwise), run through the REAL Assembler (and RewritingContext) by
harness/asm/runner.py and the observed results are judged by TLC
(spec/TraceAsm.tla) with the same Level A operators."""
import json
import os
import random
import time
from concurrent.futures import ThreadPoolExecutor
from typing import Dict, List

from .. import core, tlc
from ..core import Report

# (specification, vocabulary config, weight in the sample)
CONFIGS = {
    "C12": {
        "quick": [("Asm.tla", "Asm_cf_q.cfg", 3), ("Asm.tla", "Asm_data_q.cfg", 2),
                  ("Asm.tla", "Asm_enc_q.cfg", 2), ("Asm.tla", "Asm_cfi_q.cfg", 1.5),
                  ("Asm.tla", "Asm_ops_q.cfg", 1.5), ("Asm.tla", "Asm_str_q.cfg", 3),
                  ("Asm.tla", "Asm_strc_q.cfg", 1), ("Asm.tla", "Asm_x86ops_q.cfg", 1)],
        "thorough": [("Asm.tla", "Asm_cf_t.cfg", 3), ("Asm.tla", "Asm_data_t.cfg", 2),
                     ("Asm.tla", "Asm_enc_t.cfg", 2), ("Asm.tla", "Asm_cfi_t.cfg", 1.5),
                     ("Asm.tla", "Asm_ops_t.cfg", 1.5), ("Asm.tla", "Asm_str_t.cfg", 3),
                     ("Asm.tla", "Asm_strc_t.cfg", 1), ("Asm.tla", "Asm_x86ops_t.cfg", 1)],
    },
    "C13": {
        "quick": [("Asm.tla", "Asm_sym_q.cfg", 2), ("Asm.tla", "Asm_chunk_q.cfg", 2),
                  ("Asm.tla", "Asm_chunk2_q.cfg", 2), ("Asm.tla", "Asm_asg_q.cfg", 2),
                  ("Asm.tla", "Asm_attr_q.cfg", 1.5),
                  ("Asm.tla", "Asm_strc_q.cfg", 1), ("AsmRw.tla", "AsmRw_q.cfg", 0)],
        "thorough": [("Asm.tla", "Asm_sym_t.cfg", 2), ("Asm.tla", "Asm_chunk_t.cfg", 2),
                     ("Asm.tla", "Asm_chunk2_t.cfg", 2), ("Asm.tla", "Asm_mini5_t.cfg", 1),
                     ("Asm.tla", "Asm_asg_t.cfg", 2), ("Asm.tla", "Asm_strc_t.cfg", 1),
                     ("Asm.tla", "Asm_attr_t.cfg", 1.5),
                     ("AsmRw.tla", "AsmRw_t.cfg", 0)],
    },
}
# scenarios of AsmRw.tla (several patches in one apply()) are all executed
RWX_MAX = {"quick": 2000, "thorough": 12000}
# targets gtirb-rewriting has an ABI for (rewrites), and the targets of the
# ARM64 / MIPS32 operand forms
ABI_TARGETS = [("x64", "elf", "att"), ("x64", "pe", "intel"), ("ia32", "pe", "att"),
               ("arm64", "elf", "att"), ("mips32", "elf", "att")]
OPS_KINDS = ("ldlit", "pg", "lo", "got", "gotlo")
SAMPLE = {"C12": {"quick": 4500, "thorough": 60000},
          "C13": {"quick": 3500, "thorough": 40000}}
MC_TIMEOUT = {"quick": 900, "thorough": 2400}   # (a timeout is a machinery failure, never a verdict)
WORKERS = int(os.environ.get("VERIF_TLC_WORKERS", "16"))

# ISA x format x syntax x PIE; quick takes them round-robin (each pair of
# (isa, fmt) and (isa, syntax) occurs), thorough crosses a case with several
TARGETS = [
    ("x64", "elf", "att", False), ("x64", "pe", "intel", False),
    ("ia32", "elf", "att", True), ("arm64", "elf", "att", False),
    ("mips32", "elf", "att", False), ("x64", "elf", "intel", True),
    ("ia32", "pe", "att", False), ("arm64", "pe", "att", False),
    ("mips32", "pe", "att", False), ("x64", "pe", "att", False),
    ("ia32", "elf", "intel", False),
]
RW_SITES = [1, 2, 3, 5]


def load_known(prop: str) -> Dict[str, dict]:
    """OPEN known findings of this property (known_findings.json only; a
    fixed entry suppresses nothing)."""
    return {k["id"]: k for k in core.load_known()
            if k.get("status") == "open" and prop in k.get("properties", [k["property"]])}


def _reservoir(res: List[str], seen: int, line: str, n: int, rng: random.Random) -> None:
    if len(res) < n:
        res.append(line)
    else:
        j = rng.randrange(seen)
        if j < n:
            res[j] = line


def sample_cases(src: str, out, n: int, rng: random.Random, prop: str, tier: str,
                 first: int = 0) -> int:
    """Seeded, stratified reservoir sample of one configuration's cases: three
    quarters of the budget go to programs the model assembles, one quarter to
    programs it refuses (the model's prediction only schedules cases, it is
    never a verdict).  Assigns id, target and (C13) rewrite sites; writes to
    the open file ``out``."""
    n_ok, n_err = n - n // 4, n // 4
    ok: List[str] = []
    err: List[str] = []
    k_ok = k_err = 0
    with open(src) as f:
        for line in f:
            if '"mexc":""' in line or '"kind":"rwx"' in line:
                k_ok += 1
                _reservoir(ok, k_ok, line, n_ok, rng)
            else:
                k_err += 1
                _reservoir(err, k_err, line, n_err, rng)
    chosen = ok + err
    rng.shuffle(chosen)
    for i, line in enumerate(chosen, start=first):
        c = json.loads(line)
        if c.get("kind") == "rwx":
            isa, fmt, syn = ABI_TARGETS[i % len(ABI_TARGETS)]
            c.update(id=f"{prop}-{i}", isa=isa, fmt=fmt, syn=syn, sites=2)
            out.write(json.dumps(c, separators=(",", ":")) + "\n")
            continue
        isa, fmt, syn, pie = TARGETS[(i + rng.randrange(2) * 5) % len(TARGETS)]
        if any(t["k"] in OPS_KINDS for t in c["toks"]) or c.get("misa") in ("arm64", "mips32"):
            # operand forms of ARM64 / MIPS32: the ISA the model explored
            isa, fmt, syn, pie = c["misa"], ("elf", "pe")[i % 2], "att", False
        # spelling of the direct transfers (harness/asm/runner.py ALT); every other case canonical
        if any(t["k"] == "attr" for t in c["toks"]):
            fmt = "elf"         # symbol-attribute directives are an ELF feature
        c.update(id=f"{prop}-{i}", isa=isa, fmt=fmt, syn=syn, pie=pie, sfx="_7",
                 sp=(i // 2) % 4 if i % 2 else 0)
        for t in c["toks"]:
            t.pop("vc", None)
        nchunks = max((t["ch"] for t in c["toks"]), default=1)
        c["rw"] = RW_SITES if (prop == "C13" and nchunks == 1 and c.get("mexc") == ""
                               and i % 3 == 0) else []
        c["rwc"] = (i // 3) % 2   # every other rewrite: prologue/epilogue chunks
        out.write(json.dumps(c, separators=(",", ":")) + "\n")
    return len(chosen)


def run(prop: str, tier: str, replay: str = None) -> int:
    rep = Report(prop, tier)
    rng = random.Random(core.seed() * 1000003 + (12 if prop == "C12" else 13))
    wd = tlc.workdir(prop)
    try:
        cases = os.path.join(wd, "cases.ndjson")
        if replay:
            with open(replay) as f:
                rec = json.load(f)
            with open(cases, "w") as out:
                out.write(json.dumps(rec["case"]) + "\n")
            # the model is still checked (smallest configuration)
            res = tlc.model_check("Asm.tla", "Asm_mini.cfg", timeout=300, workers=WORKERS)
            rep.add_mc("Asm_mini.cfg", res)
        else:
            rep.extra["generated_cases"] = 0
            cfgs = CONFIGS[prop][tier]
            # the configurations are independent model-checking runs: run them
            # side by side and share the cores between them
            wsum = sum(w for _, _, w in cfgs)

            def gen(c) -> dict:
                spec, cfg, w = c
                part = os.path.join(wd, cfg + ".ndjson")
                res = tlc.generate(spec, cfg, "CASE", part, timeout=MC_TIMEOUT[tier],
                                   workers=max(2, round(WORKERS * w / wsum)), heap="4g")
                res["part"] = part
                return res

            with ThreadPoolExecutor(max_workers=len(cfgs)) as ex:
                results = list(ex.map(gen, cfgs))
            first = 0
            with open(cases, "w") as out:
                for (spec, cfg, w), res in zip(cfgs, results):
                    res["ok"] = res["ok"] and res["distinct"] > 0
                    rep.add_mc(cfg, res)
                    rep.extra["generated_cases"] += res["emitted"]
                    # every configuration gets its share of the sample
                    quota = int(SAMPLE[prop][tier] * w / wsum) if w else RWX_MAX[tier]
                    first += sample_cases(res["part"], out, quota, rng, prop, tier, first)
                    os.remove(res["part"])
        t1 = time.time()
        shards = core.split_file(cases, 16, wd, "cases")
        traces = core.run_module_parallel("harness.asm.runner", shards, wd, "asm")
        t2 = time.time()
        verdicts = tlc.validate_sharded("TraceAsm.tla", "TraceAsm.cfg", traces, jobs=16,
                                        timeout=1500)
        t3 = time.time()
        rep.extra["phase_wall_s"] = {"model_checking_and_generation": round(t1 - rep.t0, 1),
                                     "real_assembler_runs": round(t2 - t1, 1),
                                     "trace_validation": round(t3 - t2, 1)}
        case_by_id = {}
        with open(cases) as f:
            for line in f:
                c = json.loads(line)
                case_by_id[c["id"]] = c
        judge(rep, prop, verdicts, case_by_id)
        rep.exhaustive = False
        rep.rule = (
            "cases = every program (token sequence x chunking x options) reached by TLC in "
            "Asm.tla for the configured vocabularies, sampled by seed and assigned a target "
            "(isa, format, syntax, pie) round-robin; non-trivial = assembly completed (no "
            f"refusal) and at least one {prop}_* clause other than *_Completes in its domain; "
            "distinct by (tokens with chunk numbers, options, target)"
            + ("; plus every scenario of AsmRw.tla (2..N insert_at / register_insert_function "
               "operations whose patches define the same temporary labels, applied by one real "
               "RewritingContext), non-trivial = apply() completed" if prop == "C13" else ""))
        rep.assumptions = [
            "capstone is the independent observer of instruction boundaries, classes and x86 operand fields",
            "LLVM-MC (mcasm) is part of the assembler under test; its encodings are observed, not specified",
            "data-token lengths (.byte/.quad/.zero/.string/.ascii/.uleb128) are given by the specification",
            "MIPS32 is assembled with .set noreorder (delay slots are the author's); jr $ra is the MIPS return",
            "bounds of the model-checking configurations (see mc_runs): sequences up to MaxLen tokens per vocabulary",
            "gtirb and gtirb-capstone are trusted substrate",
        ]
        return rep.finish()
    finally:
        tlc.cleanup(wd)


def judge(rep: Report, prop: str, verdicts: List[dict], case_by_id: Dict[str, dict]) -> None:
    known = load_known(prop)
    pre = prop + "_"
    drift: Dict[str, int] = {}
    drift_samples: List[dict] = []
    by_target: Dict[str, int] = {}
    for v in verdicts:
        rep.traces += 1
        rep.evaluations += 1
        case = case_by_id.get(v["id"], {"id": v["id"]})
        mine = [c for c in v["indomain"] if c.startswith(pre)]
        for c in mine:
            rep.count_clause(c)
        tgt = f"{case.get('isa')}/{case.get('fmt')}/{case.get('syn')}"
        by_target[tgt] = by_target.get(tgt, 0) + 1
        nontrivial = v.get("exc", "") == "" and any(not c.endswith("_Completes") for c in mine)
        if nontrivial:
            key = {k: case.get(k) for k in ("toks", "ops", "tu", "au", "icfi", "ms", "isa", "fmt", "syn", "pie")}
            rep.nontrivial.add(core.case_hash(key))
            kind = case.get("kind", "asm")
            if kind == "rwx":
                rep.extra["rewrites_with_several_patches"] = rep.extra.get("rewrites_with_several_patches", 0) + 1
            if (len([x for x in rep.samples if x["case"].get("kind", "asm") == kind]) < 3
                    and len(case.get("toks", case.get("ops", []))) >= 3):
                rep.samples.append({"case": case, "in_domain": mine})
        if v.get("drift"):
            d = v["drift"]
            key = f"{d[0]}:{d[1]}"
            drift[key] = drift.get(key, 0) + 1
            if len(drift_samples) < 3:
                drift_samples.append({"case": case, "first_difference": d[:3]})
        for fl in v["failed"]:
            if not fl["clause"].startswith(pre):
                continue
            kfs = [k for k in fl.get("kf", []) if k in known]
            if kfs:
                rep.known_matched[kfs[0]] = rep.known_matched.get(kfs[0], 0) + 1
                continue
            path = core.write_replay(prop, fl["clause"], case, fl.get("diff"))
            rep.violations.append({"clause": fl["clause"], "case_id": v["id"],
                                   "diff": fl.get("diff"), "replay": path})
    rep.extra["model_drift"] = {"traces_with_drift": sum(drift.values()), "by_field": drift,
                                "samples": drift_samples}
    rep.extra["traces_by_target"] = by_target
    if drift:
        rep.notes.append("model drift (Level B model differs from the observed result; not a verdict): "
                         + json.dumps(drift))
