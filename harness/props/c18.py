"""C18 -- retarget_symbol_uses is complete and precise.

TLC explores the configuration space of Retarget.tla (use kinds x symbol
kinds x ABI x PIE x 1-2 simultaneous retargets), checks the theorems of the
abstract ``Expected`` on every configuration (U1) and emits every one as a
case (U3).  The cases are rendered into real modules and run through
RewritingContext.retarget_symbol_uses + apply() (harness.tables.runner); the
observed modules are judged by TLC against ``Expected`` applied to the
observed pre-module (TraceRetarget.tla, U2).

The machinery (``run_tables``) is shared with C19 (props/c19.py).
"""
import glob
import json
import os
import random
from concurrent.futures import ThreadPoolExecutor
from typing import Callable, Dict, List, Optional

from .. import core, tlc
from ..core import MachineryError, Report

CONFIGS = {
    "replay": ["Retarget_tiny.cfg"],
    "quick": ["Retarget_q1.cfg", "Retarget_q2.cfg", "Retarget_q3.cfg", "Retarget_q4.cfg", "Retarget_q5.cfg"],
    "thorough": ["Retarget_t1.cfg", "Retarget_t2.cfg", "Retarget_t3.cfg", "Retarget_t4.cfg", "Retarget_t5.cfg", "Retarget_t6.cfg", "Retarget_q5.cfg"],
}
SAMPLE = {"quick": 3000, "thorough": 40000}


def load_known(prop: str) -> Dict[str, dict]:
    """Open known findings of the property: the shared file plus the
    proposed entries kept next to their repro scripts."""
    known = {k["id"]: k for k in core.load_known()
             if k.get("status") == "open" and k.get("property") == prop}
    for path in sorted(glob.glob(os.path.join(tlc.VERIF, "findings", "KF-%s-*" % prop, "entry.json"))):
        try:
            with open(path) as f:
                k = json.load(f)
        except (OSError, ValueError):
            continue
        if k.get("status") == "open" and k.get("property") == prop:
            known.setdefault(k["id"], k)
    return known


def reservoir(src: str, n: int, rng: random.Random) -> List[str]:
    chosen: List[str] = []
    k = 0
    with open(src) as f:
        for line in f:
            if not line.strip():
                continue
            k += 1
            if len(chosen) < n:
                chosen.append(line)
            else:
                j = rng.randrange(k)
                if j < n:
                    chosen[j] = line
    return chosen


def generate_all(spec: str, cfgs: List[str], wd: str, tier: str, rep: Report) -> List[str]:
    """Runs the generation/model-checking configs concurrently; returns the
    case files (one per config)."""
    per = max(3, 16 // max(1, len(cfgs)))
    timeout = 3000 if tier == "thorough" else 1500   # safety net only (shared machine)

    def one(cfg: str):
        dest = os.path.join(wd, cfg + ".cases")
        res = tlc.generate(spec, cfg, "CASE", dest, workers=per, timeout=timeout,
                           heap="4g" if tier == "thorough" else "3g")
        if res["timed_out"] or res["distinct"] == 0:
            raise MachineryError(f"{spec}/{cfg}: timed_out={res['timed_out']} distinct={res['distinct']}")
        return cfg, dest, res

    out = []
    with ThreadPoolExecutor(max_workers=len(cfgs)) as ex:
        for cfg, dest, res in ex.map(one, cfgs):
            rep.add_mc(cfg, res)
            rep.extra["generated_cases"] = int(rep.extra.get("generated_cases", 0)) + res["emitted"]
            out.append(dest)
    return out


def run_tables(prop: str, tier: str, replay: Optional[str], *, spec: str, trace_spec: str,
               configs: Dict[str, List[str]], sample: Dict[str, int],
               nontrivial: Callable[[dict, dict], bool], rule: str,
               assumptions: List[str], quota: Optional[Callable[[dict], str]] = None) -> int:
    rep = Report(prop, tier)
    rng = random.Random(core.seed() * 1000003 + sum(map(ord, prop)))
    wd = tlc.workdir(prop)
    try:
        cases = os.path.join(wd, "cases.ndjson")
        if replay:
            with open(replay) as f:
                rec = json.load(f)
            c = rec["case"]
            c.setdefault("id", f"{prop}-replay")
            with open(cases, "w") as out:
                out.write(json.dumps(c) + "\n")
            # model checking still backs the verdict: smallest config
            generate_all(spec, configs.get("replay", configs["quick"][:1]), wd, "quick", rep)
        else:
            cfgs = configs[tier]
            if os.environ.get("VERIF_TABLES_CONFIGS"):  # development knob
                cfgs = os.environ["VERIF_TABLES_CONFIGS"].split(",")
            files = generate_all(spec, cfgs, wd, tier, rep)
            total = int(rep.extra.get("generated_cases", 0))
            n = int(os.environ.get("VERIF_TABLES_SAMPLE", sample[tier]))  # development knob
            lines: List[str] = []
            for fpath in files:
                with open(fpath) as f:
                    cnt = sum(1 for _ in f)
                share = max(600, int(n * cnt / max(1, total)))
                lines.extend(reservoir(fpath, share, rng))
                os.remove(fpath)
            rng.shuffle(lines)
            with open(cases, "w") as out:
                for i, line in enumerate(lines):
                    c = json.loads(line)
                    c["id"] = f"{prop}-{i}"
                    out.write(json.dumps(c, separators=(",", ":")) + "\n")
            rep.exhaustive = len(lines) >= total
        shards = core.split_file(cases, 16, wd, "cases")
        traces = core.run_module_parallel("harness.tables.runner", shards, wd, "tab")
        verdicts = tlc.validate_sharded(trace_spec, trace_spec.replace(".tla", ".cfg"), traces,
                                        jobs=16, timeout=1800)
        case_by_id = {}
        with open(cases) as f:
            for line in f:
                c = json.loads(line)
                case_by_id[c["id"]] = c
        judge(rep, prop, verdicts, case_by_id, nontrivial)
        rep.rule = rule
        rep.assumptions = assumptions
        return rep.finish()
    finally:
        tlc.cleanup(wd)


def judge(rep: Report, prop: str, verdicts: List[dict], case_by_id: Dict[str, dict],
          nontrivial: Callable[[dict, dict], bool]) -> None:
    known = load_known(prop)
    pre = prop + "_"
    nonconf = 0
    for v in verdicts:
        rep.traces += 1
        rep.evaluations += 1
        case = case_by_id.get(v["id"], {"id": v["id"]})
        body = {k: x for k, x in case.items() if k != "id"}
        if not v.get("conf", True):
            nonconf += 1
        mine = [c for c in v["indomain"] if c.startswith(pre)]
        for c in mine:
            rep.count_clause(c)
        if mine and nontrivial(case, v):
            rep.nontrivial.add(core.case_hash(body))
            if len(rep.samples) < 3:
                rep.samples.append({"case": case, "in_domain": mine, "exception": v.get("exc", "")})
        for fl in v["failed"]:
            if not fl["clause"].startswith(pre):
                continue
            kfs = [k for k in fl.get("kf", []) if k in known]
            if kfs:
                rep.known_matched[kfs[0]] = rep.known_matched.get(kfs[0], 0) + 1
                continue
            path = core.write_replay(prop, fl["clause"], case, fl.get("diff"))
            rep.violations.append({"clause": fl["clause"], "case_id": v["id"],
                                   "diff": fl.get("diff"), "replay": path})
    rep.extra["nonconforming_renderings"] = nonconf
    if verdicts and nonconf * 20 > len(verdicts):
        raise MachineryError(
            f"{nonconf}/{len(verdicts)} rendered modules do not conform to the abstract "
            "module of their case (renderer / spec mismatch): no verdict")
    if not rep.samples and verdicts:
        v = verdicts[0]
        rep.samples.append({"case": case_by_id.get(v["id"], {}), "in_domain": v["indomain"],
                            "exception": v.get("exc", "")})
    # KNOWN-FINDING lines of entries that are not yet in known_findings.json
    shared = {k["id"] for k in core.load_known()}
    for kid in sorted(rep.known_matched):
        if kid not in shared:
            print(f"KNOWN-FINDING: property={prop} {kid} {known[kid].get('what', '')} "
                  f"(matched {rep.known_matched[kid]} case(s); proposed entry findings/{kid}/entry.json)")


def _nontrivial(case: dict, v: dict) -> bool:
    return v.get("nkeys", 0) > 0 or any(c.endswith("_Refusals") for c in v["indomain"])


def run(prop: str, tier: str, replay: str = None) -> int:
    return run_tables(
        prop, tier, replay, spec="Retarget.tla", trace_spec="TraceRetarget.tla",
        configs=CONFIGS, sample=SAMPLE, nontrivial=_nontrivial,
        rule=("cases = post states of Retarget.tla (ABI x PIE x symbol kinds x multiset of <=k uses "
              "x registered retarget sequence, optionally followed by delete_symbol requests in the same "
              "context), stratified seeded sample per generation config; "
              "non-trivial = the rendered module conforms to the abstract module of the case and "
              "either >=1 mention of a retargeted symbol exists and apply() completed, or a refusal "
              "is expected; distinct by the whole case"),
        assumptions=[
            "capstone is the independent observer of instruction kinds (jump/call vs other operand)",
            "the pre-state is the identically rendered module after apply() without the retargets "
            "(retargets are applied after block edits); rendering is deterministic",
            "attribute rules of Retarget!Rules are the reading of the psABI documents stated in the spec",
            "one control-flow instruction per block (IR convention); anonymous proxies are not distinguished",
            "gtirb and gtirb_test_helpers are trusted substrate; bounds of the generation configs (mc_runs)",
        ])
