"""C10 - no-op rewrites are the identity; split/join round-trips; alignment.

TLC enumerates the layout space of byte intervals COMPLETELY
(spec/Intervals.tla, one configuration per family), checks on every layout
that the line-by-line model of split_byte_interval / join_byte_intervals
(Level B) satisfies the property clauses (Level A), and prints every layout as
a case.  Every case is rendered into a real gtirb interval / module and run
through the real functions and through an empty RewritingContext.apply()
(harness/intervals/runner.py); TLC judges every observed run against the
Level A clauses (spec/TraceIntervals.tla)."""
import json
import os
import time
from concurrent.futures import ThreadPoolExecutor
from typing import Dict, List

from .. import core, tlc
from ..core import MachineryError, Report

# family -> (configuration, TLC workers); the families are generated concurrently
FAMILIES = {
    "quick": [("geo", "Intervals_geo_q.cfg", 3), ("uninit", "Intervals_uninit_q.cfg", 3),
              ("align", "Intervals_align_q.cfg", 4), ("items", "Intervals_items_q.cfg", 3),
              ("apply", "Intervals_apply_q.cfg", 3), ("alpatch", "Intervals_alpatch_q.cfg", 1),
              ("addal", "Intervals_addal_q.cfg", 3)],
    "thorough": [("geo", "Intervals_geo_t.cfg", 3), ("uninit", "Intervals_uninit_t.cfg", 4),
                 ("align", "Intervals_align_t.cfg", 5), ("align3", "Intervals_align3_t.cfg", 2),
                 ("items", "Intervals_items_t.cfg", 3), ("apply", "Intervals_apply_t.cfg", 3),
                 ("alpatch", "Intervals_alpatch_t.cfg", 1), ("addal", "Intervals_addal_t.cfg", 4)],
}
PREFIX = "C10_"


def load_open_findings(prop: str) -> Dict[str, dict]:
    """Open findings of this property (known_findings.json)."""
    return {k["id"]: k for k in core.load_known()
            if k.get("status") == "open" and prop in k.get("properties", [k["property"]])}


def generate_family(fam: str, cfg: str, workers: int, dest: str, timeout: int) -> dict:
    res = tlc.generate("Intervals.tla", cfg, "CASE", dest, workers=workers, timeout=timeout)
    res["ok"] = res["ok"] and not res["timed_out"] and res["distinct"] > 0
    return res


def run(prop: str, tier: str, replay: str = None) -> int:
    rep = Report(prop, tier)
    wd = tlc.workdir(prop)
    phases = {}
    t0 = time.time()
    try:
        cases = os.path.join(wd, "cases.ndjson")
        n_cases = 0
        if replay:
            with open(replay) as f:
                rec = json.load(f)
            with open(cases, "w") as out:
                out.write(json.dumps(rec["case"]) + "\n")
            n_cases = 1
        else:
            fams = FAMILIES[tier]
            tmo = 5400 if tier == "thorough" else 900
            with ThreadPoolExecutor(max_workers=len(fams)) as ex:
                futs = [(fam, cfg, ex.submit(generate_family, fam, cfg, w,
                                             os.path.join(wd, f"gen.{fam}.ndjson"), tmo))
                        for fam, cfg, w in fams]
                results = [(fam, cfg, fu.result()) for fam, cfg, fu in futs]
            per_family = {}
            with open(cases, "w") as out:
                for fam, cfg, res in results:
                    rep.add_mc(cfg, res)
                    k = 0
                    with open(os.path.join(wd, f"gen.{fam}.ndjson")) as f:
                        for line in f:
                            c = json.loads(line)
                            if not c["vs"]:
                                continue
                            c = {"id": f"{fam}-{k}", "fam": fam, **c}
                            out.write(json.dumps(c, separators=(",", ":")) + "\n")
                            k += 1
                    per_family[fam] = {"layouts": res["emitted"], "cases": k}
                    n_cases += k
                    os.remove(os.path.join(wd, f"gen.{fam}.ndjson"))
            rep.extra["layouts_per_family"] = per_family
            rep.extra["generated_cases"] = n_cases
            rep.exhaustive = True
        phases["model_check_and_generate"] = round(time.time() - t0, 1)
        t0 = time.time()
        shards = core.split_file(cases, 16 if n_cases > 64 else 1, wd, "cases")
        traces = core.run_module_parallel("harness.intervals.runner", shards, wd, "iv")
        phases["run_real_code"] = round(time.time() - t0, 1)
        t0 = time.time()
        verdicts = tlc.validate_sharded("TraceIntervals.tla", "TraceIntervals.cfg", traces,
                                        jobs=16, timeout=7200 if tier == "thorough" else 1800)
        phases["tlc_judges_traces"] = round(time.time() - t0, 1)
        rep.extra["phase_wall_s"] = phases
        case_line: Dict[str, str] = {}
        with open(cases) as f:
            for line in f:
                if line.startswith('{"id":"'):
                    case_line[line[7:line.index('"', 7)]] = line
                elif line.strip():
                    case_line[json.loads(line).get("id", "replay")] = line
        judge(rep, prop, verdicts, case_line)
        rep.rule = (
            "cases = EVERY layout of the configured spaces (spec/Intervals_*.cfg: size, "
            "initialized_size, <=3 blocks at every (offset,size) in every processing order of equal "
            "offsets, kinds, alignments, annotated offsets, address), each run under the call variants "
            "the spec lists for it (quick: a rotating subset of the variants; thorough: all, except the "
            "align families); one evaluation = one (layout, variant) run of the real code judged by TLC; "
            "non-trivial = the layout has >= 2 overlap groups (the split really splits) and the run is "
            "in the domain of a C10 clause; distinct by (layout, variant)")
        rep.assumptions = [
            "gtirb (ByteInterval, blocks, aux data containers) is trusted substrate",
            "blocks lie inside their interval (offset + size <= interval size); alignments are powers of two <= 8",
            "equal-offset ties are broken by set iteration order in the code; every tie-breaking is accepted",
            "the empty apply() is observed on modules with one laid-out text interval plus one data interval",
            "bounds of the generation configurations (see mc_runs / layouts_per_family)",
        ]
        return rep.finish()
    finally:
        tlc.cleanup(wd)


def judge(rep: Report, prop: str, verdicts: List[dict], case_line: Dict[str, str]) -> None:
    known = load_open_findings(prop)
    drift: Dict[str, int] = {}
    excs: Dict[str, int] = {}
    want_samples = {"geo": 1, "uninit": 1, "align": 1, "apply": 1, "items": 1, "alpatch": 1}
    for v in verdicts:
        rep.traces += 1
        rep.evaluations += 1
        cid, _, vk = v["id"].partition("#")
        mine = [c for c in v["indomain"] if c.startswith(PREFIX)]
        for c in mine:
            rep.count_clause(c)
        for d in v.get("drift", []):
            drift[d] = drift.get(d, 0) + 1
        if v.get("exc"):
            excs[v["exc"]] = excs.get(v["exc"], 0) + 1
        line = case_line.get(cid, "")
        if mine and v.get("groups", 0) >= 2:
            rep.nontrivial.add(core.case_hash([line, vk]))
            fam = cid.split("-")[0]
            if want_samples.get(fam) and line:
                want_samples[fam] -= 1
                c = json.loads(line)
                c["vs"] = [c["vs"][int(vk)]] if vk.isdigit() and int(vk) < len(c["vs"]) else c["vs"]
                rep.samples.append({"case": c, "in_domain": mine, "exception": v.get("exc", "")})
        for fl in v["failed"]:
            if not fl["clause"].startswith(PREFIX):
                continue
            kfs = [k for k in fl.get("kf", []) if k in known]
            if kfs:
                rep.known_matched[kfs[0]] = rep.known_matched.get(kfs[0], 0) + 1
                continue
            case = json.loads(line) if line else {"id": cid}
            if "vs" in case and vk.isdigit() and int(vk) < len(case["vs"]):
                case["vs"] = [case["vs"][int(vk)]]
            path = core.write_replay(prop, fl["clause"], case, fl.get("diff"))
            rep.violations.append({"clause": fl["clause"], "case_id": v["id"],
                                   "diff": fl.get("diff"), "replay": path})
    rep.extra["level_b_drift"] = drift or {"none": 0}
    rep.extra["exceptions_observed"] = excs or {"none": 0}
    if drift:
        rep.notes.append(f"Level B (line-by-line model) differs from the observation in {sum(drift.values())} "
                         f"runs ({drift}); information only, Level A judged them")
