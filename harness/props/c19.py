"""C19 -- delete_symbol removes every trace of the symbol, and only that.

TLC explores the configuration space of DelSym.tla (which tables, CFI
directives and expressions each of a few symbols occurs in; how version ids
and libraries are shared; ELF and PE; deletion requests with force flags and
their merge), checks the theorems of the abstract ``Expected`` on every
configuration (U1) and emits every one as a case (U3).  The cases are rendered
into real modules and run through RewritingContext.delete_symbol + apply()
(harness.tables.runner); the observed modules are judged by TLC against
``Expected`` applied to the observed pre-module (TraceDelSym.tla, U2).
"""
from .c18 import run_tables

CONFIGS = {
    "replay": ["DelSym_tiny.cfg"],
    "quick": ["DelSym_tab_q.cfg", "DelSym_ver_q.cfg", "DelSym_lat_q.cfg", "DelSym_fwd_q.cfg",
              "DelSym_combo_q.cfg"],
    "thorough": ["DelSym_tab_t.cfg", "DelSym_tab3_t.cfg", "DelSym_ver_t.cfg", "DelSym_lat_t.cfg",
                 "DelSym_fwd_q.cfg", "DelSym_combo_t.cfg"],
}
SAMPLE = {"quick": 3000, "thorough": 30000}


def _nontrivial(case: dict, v: dict) -> bool:
    return v.get("nment", 0) > 0


def run(prop: str, tier: str, replay: str = None) -> int:
    return run_tables(
        prop, tier, replay, spec="DelSym.tla", trace_spec="TraceDelSym.tla",
        configs=CONFIGS, sample=SAMPLE, nontrivial=_nontrivial,
        rule=("cases = post states of DelSym.tla (format x per-symbol membership in the symbol tables, "
              "CFI directives and expressions x version ids x deletion requests with force flags; mode fwd: "
              "several symbolForwarding keys sharing one value; mode combo: a retarget of the deleted "
              "symbol registered in the same context), "
              "stratified seeded sample per generation config (tables: bounded number of features per "
              "symbol = pairwise; versions: exhaustive over id assignments; lattice: exhaustive for 3 "
              "symbols over representative features); non-trivial = the rendered module conforms to "
              "the abstract module of the case and at least one table, directive or expression "
              "mentions a deleted symbol; distinct by the whole case"),
        assumptions=[
            "the pre-state is the identically rendered module after apply() without the deletions; "
            "rendering is deterministic",
            "'serializes' = protobuf save/load succeeds and no symbol reference of the reloaded "
            "module is left unresolved",
            "a version definition is 'base' iff bit 0 (VER_FLG_BASE) of its flags is set; "
            "definitions with flags BASE|WEAK are not generated (see report)",
            "aux tables that hold no symbol references are compared by digest",
            "gtirb and gtirb_test_helpers are trusted substrate; bounds of the generation configs (mc_runs)",
        ])
