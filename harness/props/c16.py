"""Checks C16 (prologue/epilogue transparency) and C17 (CallPatch calling
convention and stack neutrality).

1. TLC model-checks the Level B model of the generators composed with the
   abstract machine (spec/AbiGen.tla for C16, spec/CallGen.tla for C17, both on
   spec/StackMachine.tla) over the whole configuration space of the tier and
   checks the properties as invariants in every state; the same run prints
   every configuration as a case.
2. harness/abi/runner.py replays every case into the REAL library, assembles
   what it generates with the real assembler, decodes the bytes with capstone
   into abstract events.
3. TLC (spec/TraceStack.tla) replays the observed events through the same
   machine semantics from every start alignment and judges every clause.
"""
import json
import os
import random
from typing import Dict, List

from .. import core, tlc
from ..core import Report, MachineryError

GEN = {
    "C16": {"spec": "AbiGen.tla", "quick": "AbiGen_q.cfg", "thorough": "AbiGen_t.cfg"},
    "C17": {"spec": "CallGen.tla", "quick": "CallGen_q.cfg", "thorough": "CallGen_t.cfg",
            "strict": "CallGen_strict.cfg"},
}
# upper bound on the cases replayed into the library (all of them if fewer)
SAMPLE = {"quick": 20000, "thorough": 400000}
JOBS = int(os.environ.get("VERIF_JOBS", "16"))


def load_known(prop: str) -> Dict[str, dict]:
    """Open findings of known_findings.json that concern this property (a fixed
    entry suppresses nothing)."""
    return {k["id"]: k for k in core.load_known()
            if k.get("status") == "open" and prop in k.get("properties", [k["property"]])}


LEAFHIST = {"quick": 600, "thorough": 20000}


def collect_cases(src: str, dst: str, n: int, rng: random.Random, tag: str):
    """Distinct cases of src (TLC may print a case more than once), a seeded
    sample of n of them if there are more, with ids."""
    seen = set()
    cases: List[str] = []
    with open(src) as f:
        for line in f:
            line = line.strip()
            if line and line not in seen:
                seen.add(line)
                cases.append(line)
    cases.sort()
    total = len(cases)
    if len(cases) > n:
        cases = rng.sample(cases, n)
    with open(dst, "w") as out:
        for i, line in enumerate(cases):
            c = json.loads(line)
            c["id"] = f"{tag}-{i}"
            if c.get("kind") == "c17":
                c["argshape"] = i % 3     # the container kind of CallPatch's `args` (an Iterable)
            out.write(json.dumps(c, separators=(",", ":")) + "\n")
    return len(cases), total


def run(prop: str, tier: str, replay: str = None) -> int:
    rep = Report(prop, tier)
    rng = random.Random(core.seed() * 1000003 + int(prop[1:]))
    wd = tlc.workdir(prop)
    evidence_file = os.path.join(core.EVIDENCE, f"{prop}.json")
    kept = None
    if replay and os.path.exists(evidence_file):
        with open(evidence_file) as f:
            kept = f.read()       # a replay of one case must not replace the evidence of a run
    try:
        cases = os.path.join(wd, "cases.ndjson")
        if replay:
            with open(replay) as f:
                rec = json.load(f)
            with open(cases, "w") as out:
                out.write(json.dumps(rec["case"]) + "\n")
        else:
            g = GEN[prop]
            allc = os.path.join(wd, "all.ndjson")
            res = tlc.generate(g["spec"], g[tier], "CASE", allc, workers=JOBS,
                               timeout=2400 if tier == "thorough" else 600)
            res["ok"] = res["ok"] and res["distinct"] > 0 and not res["timed_out"]
            rep.add_mc(g[tier], res)
            n, total = collect_cases(allc, cases, SAMPLE[tier], rng, prop)
            rep.extra["generated_cases"] = total
            rep.extra["replayed_cases"] = n
            rep.exhaustive = (n == total)     # the whole enumerated space was replayed
            os.remove(allc)
            if prop == "C16":
                # histories of several RewritingContexts over one module (leafFunctions table)
                lh = os.path.join(wd, "leafhist.ndjson")
                lcfg = "LeafHist_q.cfg" if tier == "quick" else "LeafHist_t.cfg"
                res = tlc.generate("LeafHist.tla", lcfg, "CASE", lh, workers=JOBS, timeout=1200)
                res["ok"] = res["ok"] and res["distinct"] > 0 and not res["timed_out"]
                rep.add_mc(lcfg, res)
                picked = os.path.join(wd, "leafhist.cases.ndjson")
                k, tot = collect_cases(lh, picked, LEAFHIST[tier], rng, prop + "-ctx")
                rep.extra["context_histories"] = {"generated": tot, "replayed": k}
                rep.extra["generated_cases"] += tot
                rep.extra["replayed_cases"] += k
                with open(cases, "a") as out, open(picked) as f:
                    out.writelines(f)
                os.remove(lh)
            if tier == "thorough" and "strict" in g:
                strict_demo(rep, prop)
        shards = core.split_file(cases, JOBS, wd, "cases")
        traces = core.run_module_parallel("harness.abi.runner", shards, wd, "abi")
        verdicts = tlc.validate_sharded("TraceStack.tla", "TraceStack.cfg", traces,
                                        jobs=JOBS, timeout=2400)
        case_by_id = {}
        with open(cases) as f:
            for line in f:
                c = json.loads(line)
                case_by_id[c["id"]] = c
        judge(rep, prop, verdicts, case_by_id)
        what = ("(ABI, clobber subset, clobbers_flags, align_stack, preserve_caller_saved, "
                "scratch count up to and beyond the end of the scratch pool, reads, leaf, spelling of "
                "the register names; histories: ONE patch object at 2-3 sites of a single real "
                "RewritingContext.apply() via insert_at / AllBlocksScope / AllFunctionsScope with "
                "equal and mixed leaf-ness, every clause at every site; histories of 2-4 "
                "RewritingContexts over one module (spec/LeafHist.tla: contexts given different "
                "function lists, calls added to leaf functions, the patch judged at every site))"
                if prop == "C16" else
                "(ABI, argument list by count/kind/value class, calling convention, "
                "constraint overrides, leaf; histories: ONE CallPatch object at 2-3 insertion sites, "
                "directly and through a real RewritingContext, with context dependent callables)")
        rep.rule = (f"cases = every configuration {what} enumerated by TLC from "
                    f"spec/{GEN[prop]['spec']} ({GEN[prop].get(tier, '')}), each replayed into the real "
                    "library; every case is replayed on the machine from every start alignment; "
                    "non-trivial = the library completed, the bytes were decodable and at least one "
                    "machine clause was in its domain; distinct by configuration")
        rep.assumptions = [
            "capstone is the independent observer of the emitted bytes (instruction forms, registers, immediates)",
            "the per-ISA instruction semantics of spec/StackMachine.tla (about 30 forms) is correct",
            "LLVM-MC (mcasm) as used by the real Assembler is the assembler the library ships with",
            "the patch body is modelled as havoc of the declared resources that returns sp and writes only below sp",
            "a callee clobbers at most the caller-saved registers, the flags, its argument area and the stack below sp",
            "ABI facts (register sets, red zone, default conventions) are taken from the psABI documents",
        ]
        rc = rep.finish()
        if kept is not None:
            with open(evidence_file, "w") as f:
                f.write(kept)
        return rc
    finally:
        tlc.cleanup(wd)


def strict_demo(rep: Report, prop: str) -> None:
    """The same model without the exemptions of the OPEN findings must be
    refuted by TLC (the findings are re-found at the design level)."""
    res = tlc.run_tlc(GEN[prop]["spec"], GEN[prop]["strict"], workers=JOBS, timeout=900)
    line = res["error"] or "no violation"
    rep.notes.append(f"strict model ({GEN[prop]['strict']}, no exemptions): {line}")
    rep.extra["strict_model_refuted"] = "is violated" in res["error"]


def judge(rep: Report, prop: str, verdicts: List[dict], case_by_id: Dict[str, dict]) -> None:
    known = load_known(prop)
    pre = prop + "_"
    drift = 0
    ood = 0
    excs: Dict[str, int] = {}
    for v in verdicts:
        rep.traces += 1
        rep.evaluations += 1
        case = case_by_id.get(v["id"], {"id": v["id"]})
        body = {k: x for k, x in case.items() if k != "id"}
        mine = [c for c in v["indomain"] if c.startswith(pre)]
        for c in mine:
            rep.count_clause(c)
        if v.get("drift"):
            drift += 1
        if v.get("ood"):
            ood += 1
        if v.get("exc"):
            excs[v["exc"]] = excs.get(v["exc"], 0) + 1
        if len(mine) > 1 and not v.get("ood"):
            rep.nontrivial.add(core.case_hash(body))
            if len(rep.samples) < 3 and (len(rep.samples) == 0 or rep.traces % 97 == 0):
                rep.samples.append({"case": case, "in_domain": mine,
                                    "exception": v.get("exc", "")})
        for fl in v["failed"]:
            if not fl["clause"].startswith(pre):
                continue
            kfs = [k for k in fl.get("kf", []) if k in known]
            if kfs:
                rep.known_matched[kfs[0]] = rep.known_matched.get(kfs[0], 0) + 1
                continue
            path = core.write_replay(prop, fl["clause"], case, fl.get("diff"))
            rep.violations.append({"clause": fl["clause"], "case_id": v["id"],
                                   "diff": fl.get("diff"), "replay": path})
    rep.extra["levelB_drift"] = drift
    rep.extra["out_of_domain"] = ood
    rep.extra["exceptions_observed"] = excs
    if drift:
        rep.notes.append(f"{drift} case(s): the library no longer emits what the Level B model "
                         f"(spec/{GEN[prop]['spec']}) predicts (drift is reported, never a violation)")
    if ood:
        rep.notes.append(f"{ood} case(s) OUT-OF-DOMAIN: an emitted instruction is outside the "
                         "instruction table and touches sp/memory; not judged")
