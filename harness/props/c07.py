"""Check of C07 ("each registered insertion lands exactly once, exactly where
asked").  TLC model-checks the registration/application state machine of
spec/Scopes.tla over small modules x registration lists (invariants
ExactlyOncePerMatchingBlock, NoSiteInNonMatchingBlock, NeverAfterTerminator,
OrderIsRegistrationOrder, AppliedEqualsSites, RefusalIsExact) and emits every
terminal state as a case; the cases are replayed through the real PassManager
with marker patches (harness/scopes/runner.py) and the observed executions are
judged by TLC against the clauses of spec/TraceScopes.tla."""
import glob
import json
import os
import random
from concurrent.futures import ThreadPoolExecutor
from typing import Dict, List

from .. import core, tlc
from ..core import Report, MachineryError

# tier -> [(generation config, sample quota)]
CONFIGS = {
    "quick": [("Scopes_fn_q.cfg", 800), ("Scopes_pass_q.cfg", 450),
              ("Scopes_blk_q.cfg", 650), ("Scopes_ord_q.cfg", 350),
              ("Scopes_isa_q.cfg", 200), ("Scopes_loose_q.cfg", 400)],
    "thorough": [("Scopes_fn_t.cfg", 9000), ("Scopes_fn2_t.cfg", 8000),
                 ("Scopes_blk_t.cfg", 7000), ("Scopes_isa_t.cfg", 5000),
                 ("Scopes_pass_t.cfg", 5000), ("Scopes_ord_t.cfg", 4000),
                 ("Scopes_blk2_t.cfg", 3000), ("Scopes_loose_t.cfg", 5000)],
}
GEN_TIMEOUT = {"quick": 300, "thorough": 1500}
GEN_PARALLEL = {"quick": 6, "thorough": 8}
GEN_WORKERS = {"quick": 3, "thorough": 3}


def sample_cases(src: str, n: int, rng: random.Random) -> List[str]:
    """Seeded reservoir sample of n lines (all if fewer)."""
    chosen: List[str] = []
    k = 0
    with open(src) as f:
        for line in f:
            if not line.strip():
                continue
            k += 1
            if len(chosen) < n:
                chosen.append(line)
            else:
                j = rng.randrange(k)
                if j < n:
                    chosen[j] = line
    return chosen


def load_known(prop: str) -> Dict[str, dict]:
    """Open findings of this property: known_findings.json plus the entries
    proposed under findings/<ID>/entry.json."""
    known = {k["id"]: k for k in core.load_known()
             if k.get("status") == "open" and k.get("property") == prop}
    for p in sorted(glob.glob(os.path.join(tlc.VERIF, "findings", "*", "entry.json"))):
        try:
            with open(p) as f:
                e = json.load(f)
        except (OSError, ValueError):
            continue
        for k in (e if isinstance(e, list) else [e]):
            if k.get("status") == "open" and k.get("property") == prop:
                known.setdefault(k["id"], k)
    return known


def run(prop: str, tier: str, replay: str = None) -> int:
    rep = Report(prop, tier)
    rng = random.Random(core.seed() * 1000003 + 7)
    wd = tlc.workdir(prop)
    try:
        cases = os.path.join(wd, "cases.ndjson")
        if replay:
            with open(replay) as f:
                rec = json.load(f)
            with open(cases, "w") as out:
                out.write(json.dumps(rec["case"]) + "\n")
            rep.level = "other"
            rep.extra["explanation"] = f"replay of one recorded case ({os.path.basename(replay)}) through the runner and TraceScopes.tla"
        else:
            cfgs = CONFIGS[tier]

            def gen(item):
                cfg, _quota = item
                part = os.path.join(wd, cfg + ".ndjson")
                res = tlc.generate("Scopes.tla", cfg, "CASE", part,
                                   timeout=GEN_TIMEOUT[tier], workers=GEN_WORKERS[tier])
                res["ok"] = res["ok"] and not res["timed_out"] and res["distinct"] > 0
                return cfg, part, res

            with ThreadPoolExecutor(max_workers=GEN_PARALLEL[tier]) as ex:
                results = list(ex.map(gen, cfgs))
            n = 0
            gen_total = 0
            with open(cases, "w") as out:
                for (cfg, quota), (_, part, res) in zip(cfgs, results):
                    rep.add_mc(cfg, res)
                    gen_total += res["emitted"]
                    tag = cfg[len("Scopes_"):-len(".cfg")]
                    for line in sample_cases(part, quota, rng):
                        c = json.loads(line)
                        c["id"] = f"{prop}-{tag}-{n}"
                        out.write(json.dumps(c, separators=(",", ":")) + "\n")
                        n += 1
                    os.remove(part)
            rep.extra["generated_cases"] = gen_total
            rep.extra["sampled_cases"] = n
        shards = core.split_file(cases, 12 if tier == "quick" else 16, wd, "cases")
        traces = core.run_module_parallel("harness.scopes.runner", shards, wd, "scopes")
        verdicts = tlc.validate_sharded("TraceScopes.tla", "TraceScopes.cfg", traces, jobs=16)
        case_by_id = {}
        with open(cases) as f:
            for line in f:
                c = json.loads(line)
                case_by_id[c["id"]] = c
        if len(verdicts) != len(case_by_id):
            raise MachineryError(f"{len(verdicts)} verdicts for {len(case_by_id)} cases")
        judge(rep, prop, verdicts, case_by_id)
        rep.rule = ("cases = terminal states (applied / refused) of Scopes.tla: small module (1-3 blocks, "
                    "all terminator kinds, 0-2 functions, with/without function tables) x registration list "
                    "(1-3 passes x 0-3 scope registrations), all generated by TLC, sampled by seed per "
                    "config; non-trivial = the run completed, C07_Invocations is in its domain and the "
                    "registrations designate at least one site; distinct by (shape, passes)")
        rep.assumptions = [
            "capstone is the independent observer of instruction boundaries in the output",
            "gtirb / gtirb-functions are trusted substrate (exit blocks follow gtirb_functions.Function.get_exit_blocks)",
            "marker immediates (0x4D4Bnnnn) do not occur in the generated modules",
            "ANYWHERE is judged by the weak statement (an instruction boundary not after the terminator)",
            "bounds of the generation configs (see mc_runs)",
        ]
        return rep.finish()
    finally:
        tlc.cleanup(wd)


def judge(rep: Report, prop: str, verdicts: List[dict], case_by_id: Dict[str, dict]) -> None:
    known = load_known(prop)
    pre = prop + "_"
    for v in verdicts:
        rep.traces += 1
        rep.evaluations += 1
        case = case_by_id.get(v["id"], {"id": v["id"]})
        mine = [c for c in v["indomain"] if c.startswith(pre)]
        for c in mine:
            rep.count_clause(c)
        if v.get("exc"):
            key = "exceptions"
            d = rep.extra.setdefault(key, {})
            d[v["exc"]] = d.get(v["exc"], 0) + 1
        nontrivial = (prop + "_Invocations") in mine and v.get("nsites", 0) > 0
        if nontrivial:
            rep.nontrivial.add(core.case_hash([case.get("shape"), case.get("passes")]))
        if len(rep.samples) < 3 and nontrivial and rep.traces % 7 == 0:
            rep.samples.append({"case": case, "in_domain": mine, "sites": v.get("nsites", 0),
                                "exception": v.get("exc", "")})
        for fl in v["failed"]:
            if not fl["clause"].startswith(pre):
                continue
            kfs = [k for k in fl.get("kf", []) if k in known]
            if kfs:
                for k in kfs[:1]:
                    rep.known_matched[k] = rep.known_matched.get(k, 0) + 1
                continue
            path = core.write_replay(prop, fl["clause"], case, fl.get("diff"))
            rep.violations.append({"clause": fl["clause"], "case_id": v["id"],
                                   "diff": fl.get("diff"), "replay": path})
    if not rep.samples:
        for v in verdicts[:2]:
            rep.samples.append({"case": case_by_id.get(v["id"], {}), "in_domain": v["indomain"],
                                "exception": v.get("exc", "")})
