"""C20 -- internal containers behave like their simple abstract models.

(U1) TLC model-checks spec/RefCache.tla (the RefNode forest of ReferenceCache
     refines `ref : Sym -> (Block | None) x BOOLEAN`, is well formed, Apply
     leaves nothing indirect; all histories up to MaxLen) and the five small
     machines of spec/Containers.tla (BlockOrdering, OffsetMapping,
     IdentitySet, ReturnEdgeCache, make_return_cache) completely.
(U3) The same runs emit every distinct state as a case: a witness history and
     the operations enabled in it (frontier replay).
(U2) harness.containers.runner replays each case into the REAL containers and
     spec/TraceContainers.tla judges every recorded result against the
     abstract models (clauses C20_*)."""
import json
import os
import random
from concurrent.futures import ThreadPoolExecutor
from typing import Dict, List

from .. import core, tlc
from ..core import Report, MachineryError

# (spec, config, tag, TLC workers)
CONTAINER_CFGS = {
    "quick": [("Containers.tla", "Containers_bo.cfg", "bo", 2),
              ("Containers.tla", "Containers_om.cfg", "om", 2),
              ("Containers.tla", "Containers_is.cfg", "is", 1),
              ("Containers.tla", "Containers_re.cfg", "re", 2),
              ("Containers.tla", "Containers_mc_q.cfg", "mc", 2)],
    "thorough": [("Containers.tla", "Containers_bo.cfg", "bo", 2),
                 ("Containers.tla", "Containers_om.cfg", "om", 2),
                 ("Containers.tla", "Containers_is.cfg", "is", 1),
                 ("Containers.tla", "Containers_re.cfg", "re", 2),
                 ("Containers.tla", "Containers_mc_t.cfg", "mc", 4)],
}
REFCACHE_CFG = {"quick": "RefCache_q.cfg", "thorough": "RefCache_t.cfg"}
# reference-cache states replayed into the real cache: all up to this depth ...
RC_ALL_DEPTH = {"quick": 3, "thorough": 4}
# ... plus a seeded sample of the deeper ones
RC_SAMPLE = {"quick": 1500, "thorough": 10 ** 9}      # thorough replays every state
# generous: a loaded machine must not turn into a machinery failure
TIMEOUT = {"quick": 1200, "thorough": 3000}
# traces per TLC validation JVM (memory: ~1 GB per 10 MB of traces)
CASES_PER_SHARD = {"rc": 1000, "ct": 1500}
MAX_REPORTED = 25          # replay files written / VIOLATION lines printed per run


def _workers(default: int) -> int:
    try:
        return max(1, min(default, int(os.environ.get("VERIF_TLC_WORKERS", default))))
    except ValueError:
        return default


def load_open_findings(prop: str) -> Dict[str, dict]:
    """Open findings of the property; a fixed entry suppresses nothing."""
    return {k["id"]: k for k in core.load_known()
            if k.get("status") == "open" and prop in k.get("properties", [k["property"]])}


def _generate(spec: str, cfg: str, tag: str, workers: int, wd: str, tier: str) -> dict:
    dest = os.path.join(wd, f"gen.{tag}.ndjson")
    res = tlc.generate(spec, cfg, "CASE", dest, workers=_workers(workers),
                       timeout=TIMEOUT[tier])
    res["dest"] = dest
    res["cfg"] = cfg
    res["tag"] = tag
    return res


def _corrupt(tr: dict) -> bool:
    """Mechanically falsifies one recorded observation of an accepted trace."""
    res = tr["runs"][0]["res"]
    k = tr["k"]
    if k == "rc":
        tr["runs"][0]["fin"]["c"][0][1] ^= 1          # Symbol.at_end after apply()
        return True
    if not res or res[-1][0] != "":
        return False
    obs = res[-1][2]
    if k == "bo":
        obs["adj"][0] = [9, 9]
    elif k == "om":
        obs["len"] += 1
    elif k == "is":
        obs["has"] = obs["has"] + [99]
    elif k == "re":
        obs["any"][0] ^= 1
    elif k == "mc":
        obs["cur"] = -5
    else:
        return False
    return True


def _binding_selftest(trace_files: List[str], wd: str, tag: str, tier: str) -> int:
    """One accepted trace per kind, one recorded value falsified: the trace
    spec must reject every one of them (else the judge is not bound to the
    recorded values: machinery failure)."""
    picked: Dict[str, dict] = {}
    for tf in trace_files:
        with open(tf) as f:
            for line in f:
                tr = json.loads(line)
                if tr["k"] not in picked and tr["wit"] and _corrupt(tr):
                    tr["id"] = "selftest-" + tr["id"]
                    picked[tr["k"]] = tr
        if len(picked) >= 5:
            break
    if not picked:
        return 0
    path = os.path.join(wd, f"selftest.{tag}.ndjson")
    with open(path, "w") as out:
        for tr in picked.values():
            out.write(json.dumps(tr, separators=(",", ":")) + "\n")
    for v in tlc.validate_traces("TraceContainers.tla", "TraceContainers.cfg", path,
                                 timeout=TIMEOUT[tier]):
        if not v["failed"]:
            raise MachineryError(f"binding self-test: corrupted trace {v['id']} was accepted")
    return len(picked)


def _replay_and_judge(cases: List[dict], wd: str, tag: str, jobs: int, tier: str,
                      selftest: bool = False):
    path = os.path.join(wd, f"cases.{tag}.ndjson")
    with open(path, "w") as out:
        for c in cases:
            out.write(json.dumps(c, separators=(",", ":")) + "\n")
    jobs = _workers(jobs)                 # VERIF_TLC_WORKERS also caps the parallel JVMs
    per = CASES_PER_SHARD.get(tag, 1000)
    nshards = max(jobs, -(-len(cases) // per))
    shards = core.split_file(path, nshards, wd, f"cases.{tag}")
    traces = core.run_module_parallel("harness.containers.runner", shards, wd, tag)
    with ThreadPoolExecutor(max_workers=2) as ex:
        st = ex.submit(_binding_selftest, traces, wd, tag, tier) if selftest else None
        verdicts = tlc.validate_sharded("TraceContainers.tla", "TraceContainers.cfg", traces,
                                        jobs=jobs, timeout=TIMEOUT[tier])
        n_self = st.result() if st else 0
    return verdicts, n_self


def run(prop: str, tier: str, replay: str = None) -> int:
    # ~25 JVMs run side by side here: the default of one GC thread per core in
    # each of them only makes them fight for the cores
    os.environ.setdefault("JAVA_TOOL_OPTIONS", "-XX:ParallelGCThreads=3")
    rep = Report(prop, tier)
    rng = random.Random(core.seed() * 1000003 + 20)
    wd = tlc.workdir(prop)
    try:
        case_by_id: Dict[str, dict] = {}
        verdicts: List[dict] = []
        if replay:
            with open(replay) as f:
                rec = json.load(f)
            case = rec["case"]
            case_by_id[case["id"]] = case
            verdicts, _ = _replay_and_judge([case], wd, "replay", 1, tier)
            sampled = False
        else:
            def containers_pipeline():
                out = []
                with ThreadPoolExecutor(max_workers=5) as ex:
                    gens = list(ex.map(lambda a: _generate(*a, wd, tier), CONTAINER_CFGS[tier]))
                cases = []
                for g in gens:
                    with open(g["dest"]) as f:
                        for i, line in enumerate(f):
                            c = json.loads(line)
                            c["id"] = f"{g['tag']}-{i}"
                            cases.append(c)
                rng2 = random.Random(core.seed() * 7919 + 1)
                rng2.shuffle(cases)          # balance the shards
                out, n_self = _replay_and_judge(cases, wd, "ct", 6, tier, selftest=True)
                return gens, cases, out, n_self

            def refcache_pipeline():
                g = _generate("RefCache.tla", REFCACHE_CFG[tier], "rc", 16, wd, tier)
                shallow, deep = [], []
                with open(g["dest"]) as f:
                    for i, line in enumerate(f):
                        c = json.loads(line)
                        c["id"] = f"rc-{i}"
                        (shallow if c["d"] <= RC_ALL_DEPTH[tier] else deep).append(c)
                n_deep = len(deep)
                # TLC's workers emit in no fixed order: sort before the seeded sample
                deep.sort(key=lambda c: json.dumps([c["init"], c["wit"]]))
                if len(deep) > RC_SAMPLE[tier]:
                    deep = rng.sample(deep, RC_SAMPLE[tier])
                cases = shallow + deep
                rng.shuffle(cases)
                out, n_self = _replay_and_judge(cases, wd, "rc", 16, tier, selftest=True)
                return g, cases, out, len(shallow), n_deep, len(deep), n_self

            with ThreadPoolExecutor(max_workers=2) as ex:
                f_ct = ex.submit(containers_pipeline)
                f_rc = ex.submit(refcache_pipeline)
                gens, ct_cases, ct_verdicts, self_ct = f_ct.result()
                (g_rc, rc_cases, rc_verdicts, n_shallow, n_deep, n_deep_used,
                 self_rc) = f_rc.result()
            rep.extra["binding_selftest_corrupted_traces_rejected"] = self_ct + self_rc
            for g in gens + [g_rc]:
                g["ok"] = True
                rep.add_mc(g["cfg"], g)
            for c in ct_cases + rc_cases:
                case_by_id[c["id"]] = c
            verdicts = ct_verdicts + rc_verdicts
            sampled = n_deep_used < n_deep
            rep.extra["generated_cases"] = sum(g["emitted"] for g in gens) + g_rc["emitted"]
            rep.extra["refcache_replay"] = {
                "states_emitted": g_rc["emitted"],
                "replayed_all_up_to_depth": RC_ALL_DEPTH[tier], "replayed_shallow": n_shallow,
                "deeper_states": n_deep, "deeper_states_replayed_sample": n_deep_used}
        judge(rep, prop, verdicts, case_by_id)
        rep.exhaustive = not sampled and not replay
        rep.rule = (
            "cases = distinct states of RefCache.tla (up to renaming of nodes, blocks and symbols; "
            "histories <= MaxLen) and of the five machines of Containers.tla (complete state graphs), "
            "each with a witness history and every operation enabled in it; each case = 1 + #enabled "
            "fresh replays into the real container, every result compared with the abstract model. "
            "non-trivial = non-empty witness (a state other than the initial one); distinct by "
            "(kind, initial state, witness). evaluations = replays; operations_executed counts the "
            "container operations")
        rep.assumptions = [
            "gtirb (Symbol.referent / Block.references index, CFG, Offset) is trusted substrate",
            "the iteration order of Python sets is not controlled: after a partially consumed "
            "get_references the real cache may have converted other symbols than the model's "
            "witness (judged at Level A, which does not depend on the order)",
            "reference cache: 3 blocks x 3 symbols, histories bounded by MaxLen of the config; "
            "state space quotiented by block / symbol permutations (View of RefCache.tla)",
            "weak CFG hash of make_return_cache (xor of edge hashes) is modelled as set inequality",
        ]
        return rep.finish()
    finally:
        tlc.cleanup(wd)


def judge(rep: Report, prop: str, verdicts: List[dict], case_by_id: Dict[str, dict]) -> None:
    known = load_open_findings(prop)
    pre = prop + "_"
    ops = 0
    total = 0
    by_kind: Dict[str, int] = {}
    for v in verdicts:
        rep.traces += 1
        rep.evaluations += v.get("runs", 0)
        ops += v.get("ops", 0)
        case = case_by_id.get(v["id"], {"id": v["id"]})
        kind = v.get("k", "?")
        by_kind[kind] = by_kind.get(kind, 0) + 1
        mine = [c for c in v["indomain"] if c.startswith(pre)]
        for c in mine:
            rep.count_clause(c)
        if mine and case.get("wit"):
            rep.nontrivial.add(core.case_hash([case.get("k"), case.get("init"), case.get("wit")]))
        if mine and case.get("wit") and kind not in {s["case"].get("k") for s in rep.samples} \
                and len(rep.samples) < 5:
            small = dict(case)
            small["en"] = small.get("en", [])[:6] + ["..."]
            rep.samples.append({"case": small, "in_domain": mine, "replays": v.get("runs", 0)})
        if not mine:
            rep.notes.append(f"case {v['id']} out of domain (universe size)")
        for fl in v["failed"]:
            if not fl["clause"].startswith(pre):
                continue
            kfs = [k for k in fl.get("kf", []) if k in known]
            if kfs:
                rep.known_matched[kfs[0]] = rep.known_matched.get(kfs[0], 0) + 1
                continue
            total += 1
            if len(rep.violations) >= MAX_REPORTED:
                continue                     # counted, not written out
            path = core.write_replay(prop, fl["clause"], case, fl.get("diff"))
            rep.violations.append({"clause": fl["clause"], "case_id": v["id"],
                                   "diff": fl.get("diff"), "replay": path})
    if total:
        rep.extra["violating_case_clauses_total"] = total
    rep.extra["operations_executed"] = ops
    rep.extra["cases_by_kind"] = by_kind
