"""C13 (assembler symbol discipline and incremental assembly) shares the
machinery of C12: see harness/props/c12.py."""
from .c12 import run  # noqa: F401
