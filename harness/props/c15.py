"""C15 - CFI evaluation implements the DWARF rules and fails cleanly.

TLC explores the state graph of spec/CfiEval.tla (all directive sequences up
to a bound, one named action per directive), checks the sanity invariants of
the specification on every state and prints every state (= one directive
sequence, valid or invalid) as a case; a simulation run adds long error-free
sequences with nested remember/restore.  Every case is rendered into a real
``cfiDirectives`` table and evaluated by the real
``evaluate_cfi_directives`` for every ABI (harness/cfieval/runner.py), with
the table entries inserted in ascending / descending / shuffled order and
optionally after a protobuf round trip of the IR; the
observed yields, copies and exception types are judged by TLC against
``CfiRun`` (spec/TraceCfiEval.tla)."""
import glob
import json
import os
import random
from concurrent.futures import ThreadPoolExecutor
from typing import Dict, List

from .. import core, tlc
from ..core import Report, MachineryError

ABIS = ["x64-elf", "x64-pe", "ia32-pe", "arm64-elf", "mips32-elf"]
# exhaustive configs per tier: (cfg, timeout, ABIs the cases name)
GEN = {"quick": [("CfiEval_q.cfg", 400, ABIS), ("CfiEval_deep_q.cfg", 400, ["x64-elf", "mips32-elf"])],
       "thorough": [("CfiEval_t.cfg", 3000, ABIS), ("CfiEval_deep_t.cfg", 3000, ["x64-elf"])]}
SIM = {"quick": 50, "thorough": 1000}             # simulated behaviours per worker (4 workers, 12 tokens)
WORKERS = int(os.environ.get("VERIF_TLC_WORKERS", "12"))
JOBS = int(os.environ.get("VERIF_TLC_JOBS", "16"))


def known_open(prop: str) -> Dict[str, dict]:
    """Open findings of the property: known_findings.json plus the proposed
    entries next to the repro scripts (findings/KF-C15-*/entry.json)."""
    ks = {k["id"]: k for k in core.load_known()
          if k.get("status") == "open" and k.get("property") == prop}
    fixed = {k["id"] for k in core.load_known() if k.get("status") == "fixed"}
    for p in sorted(glob.glob(os.path.join(tlc.VERIF, "findings", f"KF-{prop}-*", "entry.json"))):
        with open(p) as f:
            e = json.load(f)
        if e.get("status") == "open" and e["id"] not in ks and e["id"] not in fixed:
            ks[e["id"]] = e
    return ks


def brief(case: dict) -> dict:
    """Compact rendering of a case for samples."""
    out = []
    for t in case.get("toks", []):
        s = t["op"]
        if t["op"] == "escape":
            s += "(" + ",".join(i["k"] for i in t["insts"]) + ")"
        elif t["op"] in ("personality", "lsda"):
            s += f" {t['r']} {t['sym'] or '-'}"
        elif t["op"] not in ("startproc", "endproc", "remember_state", "restore_state",
                             "nextoff", "nextblk"):
            s += f" {t['r']} {t['n']}"
        out.append(s)
    return {"id": case.get("id"), "directives": out, "abis": case.get("abis")}


def multi_offset(case: dict) -> bool:
    """Some block carries directives at two or more offsets."""
    blks = [g["blk"] for g in case["groups"]]
    return len(blks) != len(set(blks))


def collect(rep: Report, tier: str, wd: str, rng: random.Random, dest: str) -> int:
    seen = set()
    stats = {"multi_offset_cases": 0, "order_asc": 0, "order_desc": 0, "order_shuf": 0,
             "protobuf_roundtrip": 0}
    rep.extra["table_insertion_order"] = stats
    n = 0
    part = ""
    with open(dest, "w") as out:
        def take(tag: str, abis: List[str]) -> int:
            nonlocal n
            k = 0
            with open(part) as f:
                for line in f:
                    c = json.loads(line)
                    h = core.case_hash(c["toks"])
                    if h in seen:
                        continue
                    seen.add(h)
                    c["abis"] = abis
                    c["rev"] = rng.random() < 0.5       # blocks handed over in reverse order
                    c["gap"] = rng.random() < 0.3       # directive-free blocks in between
                    c["iseed"] = rng.randrange(1 << 30)
                    # insertion order of the table entries / protobuf round trip: a case
                    # with a block that carries directives at >= 2 offsets is run in
                    # every order (the expectation, CfiRun, knows no insertion order)
                    if multi_offset(c):
                        # never ascending only: descending as built, and shuffled (descending
                        # when there are just two entries) after a protobuf save / load; the
                        # large small-alphabet set gets one of the two, by the seed
                        variants = [("", "desc", False),
                                    (".s", "shuf" if len(c["groups"]) > 2 else "desc", True)]
                        if tag == "deep":
                            variants = [("",) + variants[rng.randrange(2)][1:]]
                        stats["multi_offset_cases"] += 1
                    else:
                        variants = [("", "asc", rng.random() < 0.1)]
                    for suffix, ins, pb in variants:
                        c["id"] = f"{tag}-{n}{suffix}"
                        c["ins"] = ins
                        c["pb"] = pb
                        stats["order_" + ins] += 1
                        stats["protobuf_roundtrip"] += int(pb)
                        out.write(json.dumps(c, separators=(",", ":")) + "\n")
                        k += 1
                    n += 1
            return k

        # the generation runs are independent: run them side by side
        def gen(job):
            kind, cfg, tmo, abis, dest_part, extra, workers = job
            return tlc.generate("CfiEval.tla", cfg, "CASE", dest_part, timeout=tmo,
                                workers=workers, extra=extra)

        jobs = []
        for i, (cfg, tmo, abis) in enumerate(GEN[tier]):
            jobs.append(("deep" if "_deep_" in cfg else "mc", cfg, tmo, abis,
                         os.path.join(wd, f"part{i}.ndjson"), None, max(2, WORKERS // 2)))
        jobs.append(("sim", "CfiEval_sim.cfg", 900, ABIS, os.path.join(wd, "partsim.ndjson"),
                     ["-simulate", f"num={SIM[tier]}", "-depth", "14",
                      "-seed", str(core.seed() + 15)], 4))
        with ThreadPoolExecutor(max_workers=len(jobs)) as ex:
            results = list(ex.map(gen, jobs))
        rep.extra["generated_cases"] = 0
        for job, res in zip(jobs, results):
            part = job[4]
            if job[0] == "sim":
                rep.extra["simulated_cases"] = take("sim", job[3])
                rep.extra["simulation"] = {"config": job[1], "behaviours": 4 * SIM[tier],
                                           "tokens": 12, "wall_s": round(res["wall"], 1)}
            else:
                rep.add_mc(job[1], res)
                rep.extra["generated_cases"] += take(job[0], job[3])
            os.remove(part)
    return n


def run(prop: str, tier: str, replay: str = None) -> int:
    rep = Report(prop, tier)
    rng = random.Random(core.seed() * 1000003 + 15)
    wd = tlc.workdir(prop)
    try:
        cases = os.path.join(wd, "cases.ndjson")
        if replay:
            with open(replay) as f:
                rec = json.load(f)
            with open(cases, "w") as out:
                out.write(json.dumps(rec["case"]) + "\n")
            # the sanity invariants are still checked (small graph)
            res = tlc.model_check("CfiEval.tla", "CfiEval_q.cfg", timeout=400, workers=WORKERS)
            rep.add_mc("CfiEval_q.cfg", res)
        else:
            collect(rep, tier, wd, rng, cases)
            rep.exhaustive = True
        shards = core.split_file(cases, 16 if tier == "quick" else 32, wd, "cases")
        traces = core.run_module_parallel("harness.cfieval.runner", shards, wd, "cfi")
        verdicts = tlc.validate_sharded("TraceCfiEval.tla", "TraceCfiEval.cfg", traces,
                                        jobs=JOBS, timeout=3600)
        case_by_id = {}
        with open(cases) as f:
            for line in f:
                c = json.loads(line)
                case_by_id[c["id"]] = c
        judge(rep, prop, verdicts, case_by_id)
        rep.rule = ("cases = every state of CfiEval.tla (= every directive sequence up to MaxLen over "
                    "the configured alphabet, valid and invalid, each ending at its first error) plus "
                    "simulated error-free sequences of 12 tokens; each evaluated under 5 ABIs; a sequence that "
                    "puts directives at >= 2 offsets of one block is run with the table entries inserted "
                    "descending and shuffled (never ascending), the latter after a protobuf save/load "
                    "(one of the two for the small-alphabet set; the expectation has no insertion order); "
                    "non-trivial = contains a startproc and at least one further token and has a run "
                    "in the domain of a C15 clause; distinct by token sequence")
        rep.assumptions = [
            "gtirb / gtirb_test_helpers build the module and the cfiDirectives table faithfully",
            "the projection of ProcedureState reads public attributes only (harness/cfieval/runner.py)",
            "ABI facts of the specification (return column, pointer size, byte order) follow LLVM MC's CIEs",
            "operands are bounded by the configuration (registers, offsets, 7 escapes); DWARF operand "
            "encodings themselves belong to C14",
            "x64-pe / ia32-pe have no DWARF return column in the library (NotImplementedError): "
            "runs that start a procedure there are out of domain",
        ]
        return rep.finish()
    finally:
        tlc.cleanup(wd)


def judge(rep: Report, prop: str, verdicts: List[dict], case_by_id: Dict[str, dict]) -> None:
    known = known_open(prop)
    pre = prop + "_"
    unsupported = 0
    matched = set()
    for v in verdicts:
        rep.traces += 1
        case = case_by_id.get(v["id"], {"id": v["id"]})
        rep.evaluations += len(v.get("exc", [])) or 1
        unsupported += len(v.get("outdomain", []))
        mine = [c for c in v["indomain"] if c.startswith(pre)]
        for c in mine:
            rep.count_clause(c)
        toks = case.get("toks", [])
        if mine and len(toks) >= 2 and any(t["op"] == "startproc" for t in toks):
            rep.nontrivial.add(core.case_hash(toks))
            if len(rep.samples) < 4 and len(toks) >= 3 and any(
                    t["op"] in ("escape", "remember_state", "restore", "nextoff") for t in toks[1:]):
                rep.samples.append({"case": brief(case), "in_domain": mine,
                                    "exceptions": v.get("exc", [])})
        for fl in v["failed"]:
            if not fl["clause"].startswith(pre):
                continue
            kfs = fl.get("kf", [])
            if kfs and all(k in known for k in kfs):
                for k in kfs:
                    if (k, v["id"]) not in matched:
                        matched.add((k, v["id"]))
                        rep.known_matched[k] = rep.known_matched.get(k, 0) + 1
                continue
            path = core.write_replay(prop, fl["clause"], case, fl.get("diff"))
            rep.violations.append({"clause": fl["clause"], "case_id": v["id"],
                                   "diff": fl.get("diff"), "replay": path})
    rep.extra["runs_out_of_domain_unsupported_abi"] = unsupported
    if not rep.traces:
        raise MachineryError("no traces were judged")
