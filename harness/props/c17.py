"""C17 (CallPatch follows the calling convention and is stack-neutral): same
machinery as C16, see harness/props/c16.py."""
from .c16 import run  # noqa: F401
