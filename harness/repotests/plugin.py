"""pytest plugin: records every RewritingContext.apply() executed by the
repository's own tests as a G1 trace (projected pre-state, the registered
modifications, the patch contents observed at Assembler.finalize through the
verification hooks, the projected post-state), so that spec/TraceG1.tla can judge
the maintainers' hand-built set-ups with the same clauses as the generated
cases.  Usage:
  GTIRB_REWRITING_VERIF=1 VERIF_REPOTRACE=<file> PYTHONPATH=/verif \
     /venv/bin/python -m pytest -p harness.repotests.plugin /repo/tests/test_rewriting.py ...
Applications that use features the listing model does not cover yet (symbol
retargets / deletions, function insertion, scope-based registrations) are recorded
with "skip" set and not judged."""
import json
import os

import gtirb

import gtirb_rewriting
from gtirb_rewriting import _verif
from gtirb_rewriting.rewriting import _Deletion, _InsertionOrReplacement
from gtirb_rewriting.scopes import _SpecificLocationScope

from harness.g1.project import Projector, whole_ir_report
from harness.g1.runner import EMPTY_PATCH, bytes_patch, exc_name, project_assembled

_ORIG_APPLY = gtirb_rewriting.RewritingContext.apply
_COUNT = [0]


def _traced_apply(self):
    out_path = os.environ.get("VERIF_REPOTRACE")
    if not out_path or not _verif.ENABLED:
        return _ORIG_APPLY(self)
    module = self._module
    proj = Projector(module)
    skip = ""
    if self._symbol_retargets or self._symbol_deletions:
        skip = "symbol retarget/delete"
    if self._function_insertions:
        skip = "function insertion"
    if self._modifications._scope_changes:
        skip = "scope registration"
    try:
        pre = proj.project()
    except Exception as e:  # a module the projection cannot describe
        return _ORIG_APPLY(self)
    reqs = []
    for block, mods in self._modifications._block_changes.items():
        for mod in mods:
            sc = mod.scope
            if not isinstance(sc, _SpecificLocationScope):
                skip = skip or "non-location block scope"
                continue
            rec = {"id": mod.id, "u": proj.uid(block), "off": sc.offset,
                   "len": sc._replacement_length(), "proxy": False, "patch": EMPTY_PATCH, "pk": "repo"}
            if isinstance(mod, _Deletion):
                rec["op"] = "del"
                rec["proxy"] = bool(mod.retarget_to_proxy)
            elif isinstance(mod, _InsertionOrReplacement):
                rec["op"] = "rep" if rec["len"] else "ins"
                if isinstance(mod.patch, (bytes, bytearray)):
                    rec["patch"] = bytes_patch(bytes(mod.patch))
                    rec["got"] = True
            reqs.append(rec)
    pending = []

    def sink(event, f):
        if event == "before_patch":
            pending.append((proj.uid(f["block"]), f["offset"]))
        elif event == "assembler_finalize" and pending:
            u, off = pending.pop()
            cands = [r for r in reqs if r["u"] == u and r["off"] == off
                     and r["op"] in ("ins", "rep") and not r.get("got")]
            cands.sort(key=lambda r: r["id"])
            if cands:
                try:
                    cands[0]["patch"] = project_assembled(f["result"], module)
                except Exception:
                    cands[0]["patch"] = dict(EMPTY_PATCH, nsec=9)
                cands[0]["got"] = True

    orig_cfg = module.ir.cfg
    _verif.install(sink)
    exc = ""
    try:
        return _ORIG_APPLY(self)
    except BaseException as e:
        exc = exc_name(e)
        raise
    finally:
        _verif.install(None)
        try:
            post = proj.project()
            whole = whole_ir_report(module, orig_cfg)
            for r in reqs:
                if r["op"] in ("ins", "rep") and not r.pop("got", False):
                    # the patch returned no assembly: no insertion took place
                    r["patch"] = EMPTY_PATCH
                    if r["op"] == "ins" and not exc:
                        r["op"] = "noop"
            reqs2 = [r for r in reqs if r["op"] != "noop"]
            _COUNT[0] += 1
            test = os.environ.get("PYTEST_CURRENT_TEST", "?").split(" ")[0]
            isa = {gtirb.Module.ISA.X64: "x64", gtirb.Module.ISA.IA32: "ia32",
                   gtirb.Module.ISA.ARM64: "arm64", gtirb.Module.ISA.MIPS32: "mips32"}.get(module.isa, "x64")
            fmt = "pe" if module.file_format == gtirb.Module.FileFormat.PE else "elf"
            tr = {"id": f"repo-{_COUNT[0]}:{test}", "pre": pre, "reqs": reqs2, "post": post,
                  "exc": exc, "stage": "done" if not exc else "apply", "nfun": len(self._functions),
                  "isa": isa, "fmt": fmt, "whole": whole, "fault": 0, "ninv": 0,
                  "insfn": {"name": "", "patch": EMPTY_PATCH}, "skip": skip}
            with open(out_path, "a") as f:
                f.write(json.dumps(tr, separators=(",", ":")) + "\n")
        except Exception as e:  # never disturb the test
            with open(out_path + ".err", "a") as f:
                f.write(f"{type(e).__name__}: {e}\n")


def pytest_configure(config):
    gtirb_rewriting.RewritingContext.apply = _traced_apply
    import gtirb_rewriting.rewriting as rw
    rw.RewritingContext.apply = _traced_apply
