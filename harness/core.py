"""Shared machinery of the checks: parallel execution of the real library,
verdict aggregation, known-findings matching, evidence and replay files."""
import hashlib
import json
import os
import random
import subprocess
import sys
import time
from concurrent.futures import ThreadPoolExecutor
from typing import Callable, Dict, Iterable, List, Optional

from . import tlc
from .tlc import VERIF, MachineryError

PY = "/venv/bin/python"
EVIDENCE = os.path.join(VERIF, "evidence")
REPLAYS = os.path.join(VERIF, "replays")
KNOWN = os.path.join(VERIF, "known_findings.json")


def seed() -> int:
    try:
        return int(os.environ.get("VERIF_SEED", "0"))
    except ValueError:
        return 0


def load_known() -> List[dict]:
    if not os.path.exists(KNOWN):
        return []
    with open(KNOWN) as f:
        return json.load(f)


def split_file(src: str, n: int, wd: str, tag: str) -> List[str]:
    """Splits an ndjson file round-robin into n shards."""
    outs = [open(os.path.join(wd, f"{tag}.{i}.ndjson"), "w") for i in range(n)]
    k = 0
    with open(src) as f:
        for line in f:
            if line.strip():
                outs[k % n].write(line)
                k += 1
    for o in outs:
        o.close()
    return [o.name for o in outs if os.path.getsize(o.name) > 0]


def run_module_parallel(module: str, case_files: List[str], wd: str, tag: str,
                        extra_env: Optional[Dict[str, str]] = None,
                        timeout: int = 3600) -> List[str]:
    """Runs `python -m <module> cases traces` once per shard, in parallel, with
    the repository's interpreter and the hooks enabled."""
    env = dict(os.environ)
    env["GTIRB_REWRITING_VERIF"] = "1"
    env.setdefault("PYTHONHASHSEED", "0")
    env["PYTHONPATH"] = VERIF + os.pathsep + env.get("PYTHONPATH", "")
    if extra_env:
        env.update(extra_env)
    outs = []
    procs = []
    for i, cf in enumerate(case_files):
        of = os.path.join(wd, f"{tag}.traces.{i}.ndjson")
        outs.append(of)
        log = open(os.path.join(wd, f"{tag}.log.{i}"), "w")
        procs.append((subprocess.Popen([PY, "-m", module, cf, of], env=env, cwd=VERIF,
                                       stdout=log, stderr=subprocess.STDOUT), log, cf))
    for p, log, cf in procs:
        try:
            rc = p.wait(timeout=timeout)
        except subprocess.TimeoutExpired:
            p.kill()
            raise MachineryError(f"runner {module} timed out on {cf}")
        log.close()
        if rc != 0:
            with open(log.name) as f:
                tail = f.read()[-3000:]
            raise MachineryError(f"runner {module} failed on {cf} (rc={rc}):\n{tail}")
    return outs


def case_hash(obj) -> str:
    return hashlib.sha1(json.dumps(obj, sort_keys=True).encode()).hexdigest()[:16]


def write_replay(prop: str, clause: str, case: dict, diff, extra: Optional[dict] = None) -> str:
    d = os.path.join(REPLAYS, prop)
    os.makedirs(d, exist_ok=True)
    path = os.path.join(d, case_hash([clause, case]) + ".json")
    rec = {"property": prop, "clause": clause, "case": case, "diff": diff,
           "seed": seed()}
    if extra:
        rec.update(extra)
    with open(path, "w") as f:
        json.dump(rec, f, indent=1, sort_keys=True)
    return path


class Report:
    """Accumulates what one check run covered and found."""

    def __init__(self, prop: str, tier: str, level: str = "model_checking"):
        self.prop = prop
        self.tier = tier
        self.level = level
        self.t0 = time.time()
        self.states = 0
        self.transitions = 0
        self.mc_runs: List[dict] = []
        self.evaluations = 0
        self.traces = 0
        self.nontrivial: set = set()
        self.samples: List = []
        self.clause_counts: Dict[str, int] = {}
        self.violations: List[dict] = []
        self.known_matched: Dict[str, int] = {}
        self.notes: List[str] = []
        self.extra: Dict[str, object] = {}
        self.rule = ""
        self.assumptions: List[str] = []
        self.exhaustive = False

    def add_mc(self, name: str, res: dict) -> None:
        if not res.get("ok"):
            raise MachineryError(
                f"model checking {name} did not complete cleanly: rc={res['rc']} "
                f"timed_out={res['timed_out']} {res['error']}\n{res.get('tail', '')}")
        self.states += res["distinct"]
        self.transitions += res["generated"]
        self.mc_runs.append({"config": name, "distinct_states": res["distinct"],
                             "states_generated": res["generated"], "depth": res["depth"],
                             "wall_s": round(res["wall"], 1)})

    def count_clause(self, name: str, n: int = 1) -> None:
        self.clause_counts[name] = self.clause_counts.get(name, 0) + n

    def finish(self, write_evidence: bool = True) -> int:
        """Writes the evidence file, prints VIOLATION / KNOWN-FINDING lines and
        returns the exit code."""
        os.makedirs(EVIDENCE, exist_ok=True)
        for kid, n in sorted(self.known_matched.items()):
            kf = next((k for k in load_known() if k["id"] == kid), {"what": ""})
            print(f"KNOWN-FINDING: property={self.prop} {kid} {kf.get('what', '')} (matched {n} case(s))")
        seen = set()
        for v in self.violations:
            key = v["replay"]
            if key in seen:
                continue
            seen.add(key)
            print(f"VIOLATION property={self.prop} replay={v['replay']}")
            print(f"  clause={v['clause']} case={v.get('case_id')} diff={json.dumps(v.get('diff'))[:600]}")
        cov = {
            "states": self.states, "transitions": self.transitions,
            "traces_validated_against_impl": self.traces,
            "evaluations": self.evaluations,
            "distinct_nontrivial": len(self.nontrivial),
            "rule": self.rule, "samples": self.samples[:5] or ["(none)"],
            "exhaustive": self.exhaustive, "mc_runs": self.mc_runs,
            "clause_in_domain_counts": self.clause_counts,
            "known_findings_matched": self.known_matched,
            "notes": self.notes,
        }
        cov.update(self.extra)
        ev = {
            "property_id": self.prop, "tier": self.tier, "seed": seed(),
            "level": self.level, "coverage": cov, "assumptions": self.assumptions,
            "wall_s": round(time.time() - self.t0, 2),
            "violations": len(seen),
        }
        if write_evidence and not os.environ.get("VERIF_NO_EVIDENCE"):
            with open(os.path.join(EVIDENCE, f"{self.prop}.json"), "w") as f:
                json.dump(ev, f, indent=1, sort_keys=True)
        print(f"{self.prop} [{self.tier}] states={self.states} traces={self.traces} "
              f"nontrivial={len(self.nontrivial)} violations={len(seen)} "
              f"known={sum(self.known_matched.values())} wall={ev['wall_s']}s")
        return 1 if seen else 0
