"""Frontier replay of the C20 container models into the real containers.

A case (emitted by TLC from spec/RefCache.tla or spec/Containers.tla) is one
distinct state of the model: ``wit`` a witness history that reaches it and
``en`` every operation enabled in it.  The witness is replayed into the REAL
container (real gtirb.Symbol / CodeBlock / ProxyBlock / Edge objects inside a
real module), then every enabled operation is tried from that state, each on a
fresh replay.  After EVERY operation every public result is recorded; nothing
here computes an expected value -- TraceContainers.tla replays the operations
through the abstract model and compares.

Operations are 4-tuples of integers (see the .tla files for the codes).

Observation of the reference cache is destructive (get_referent and
get_references convert indirect references, i.e. they ARE operations of the
model), so it is never interleaved with a history: a run executes the
operations of the case, recording only what these operations themselves
return, and ends with ONE final observation in one of three modes
(0: get_referent of every symbol, then apply(), then the plain attributes;
1: apply() only; 2: get_references of every block, then apply()).  The state
reached by the witness is observed by three separate, identical replays (one
per mode) and, of course, by the enabled operations themselves.

Trace (one JSON object per line):
  {id, k, n, init, wit, runs: [{x, same, res, fin}]}
    x    the extension operation ([] for the witness alone)
    res  per operation [exc, val, obs]; for an extension run whose witness
         part produced exactly the results of the first run (same = 1) only
         the last operation's result is kept
"""
import itertools
import json
import os
import sys
import traceback
import uuid

import gtirb

from gtirb_rewriting._adt import BlockOrdering, IdentitySet, OffsetMapping
from gtirb_rewriting._modify.cache import (
    ReferenceCache,
    ReturnEdgeCache,
    make_return_cache,
)

DEBUG = bool(os.environ.get("VERIF_DEBUG"))


def exc_name(e: BaseException) -> str:
    return type(e).__name__


def make_module(n_code: int = 0, n_data: int = 0, n_proxy: int = 0):
    ir = gtirb.IR()
    m = gtirb.Module(name="m", isa=gtirb.Module.ISA.X64,
                     file_format=gtirb.Module.FileFormat.ELF)
    m.ir = ir
    sec = gtirb.Section(name=".text")
    sec.module = m
    total = max(1, n_code + n_data)
    bi = gtirb.ByteInterval(contents=b"\x90" * total, address=0x1000)
    bi.section = sec
    code, data, proxies = [], [], []
    off = 0
    for _ in range(n_code):
        b = gtirb.CodeBlock(offset=off, size=1)
        b.byte_interval = bi
        code.append(b)
        off += 1
    for _ in range(n_data):
        b = gtirb.DataBlock(offset=off, size=1)
        b.byte_interval = bi
        data.append(b)
        off += 1
    for _ in range(n_proxy):
        p = gtirb.ProxyBlock()
        p.module = m
        proxies.append(p)
    return ir, m, code, data, proxies


class Index:
    """object <-> 1-based model index, by identity (0 = None, -2 = unknown)."""

    def __init__(self, objs):
        self.objs = list(objs)
        self.ids = {id(o): i + 1 for i, o in enumerate(self.objs)}

    def of(self, o) -> int:
        if o is None:
            return 0
        return self.ids.get(id(o), -2)

    def get(self, i: int):
        return None if i == 0 else self.objs[i - 1]


# --------------------------------------------------------------------------
# rc: ReferenceCache
# --------------------------------------------------------------------------
class RC:
    kind = "rc"

    def __init__(self, case):
        self.nb, self.ns = case["nb"], case["ns"]
        self.init = case["init"]
        _, self.m, _, data, _ = make_module(n_data=self.nb)
        self.B = Index(data)
        syms = []
        for i in range(self.ns):
            s = gtirb.Symbol(f"s{i + 1}")
            s.module = self.m
            syms.append(s)
        self.S = Index(syms)
        self.cache = None

    def reset(self):
        # all references direct again, as the initial state says; a new cache
        for s, (b, e) in zip(self.S.objs, self.init):
            s.referent = self.B.get(b)
            s.at_end = bool(e)
        self.cache = ReferenceCache()

    def sym_row(self, s):
        return [self.B.of(s.referent), int(bool(s.at_end))]

    def do(self, op):
        c, x, y, z = op
        cache = self.cache
        val, d, e, ys = -1, -1, -1, []
        if c == 1:
            cache.retarget_references(self.B.get(x), self.B.get(y), bool(z))
        elif c == 2:
            s = self.S.get(x)
            val = self.B.of(cache.get_referent(s))
            d, e = self.sym_row(s)
        elif c == 3:
            s = self.S.get(x)
            cache.set_referent(s, self.B.get(y), bool(z))
            d, e = self.sym_row(s)
        elif c == 4:
            gen = cache.get_references(self.B.get(x))
            it = gen if y == 0 else itertools.islice(gen, y)
            for s in it:
                # what the consumer sees at the moment of the yield
                ys.append([self.S.of(s)] + self.sym_row(s))
            gen.close()
        elif c == 5:
            cache.apply()
        elif c == 6:
            s = self.S.get(x)
            s.referent = self.B.get(y)
            s.at_end = bool(z)
            d, e = self.sym_row(s)
        else:
            raise RuntimeError(f"bad op {op}")
        return val, [d, e, ys]

    def obs(self):
        return []  # never observed between operations (see module docstring)

    def final(self, mode, rot):
        fin = {"m": mode, "a": [], "b": [], "x": "", "c": [], "r": []}
        try:
            if mode == 0:
                order = list(range(self.ns))
                order = order[rot % self.ns:] + order[:rot % self.ns]
                rows = {}
                for i in order:
                    s = self.S.objs[i]
                    r = self.cache.get_referent(s)
                    rows[i] = [self.B.of(r), int(bool(s.at_end))]
                fin["a"] = [rows[i] for i in range(self.ns)]
            elif mode == 2:
                order = list(range(self.nb))
                order = order[rot % self.nb:] + order[:rot % self.nb]
                per = {}
                for i in order:
                    b = self.B.objs[i]
                    per[i] = [[self.S.of(s)] + self.sym_row(s)
                              for s in self.cache.get_references(b)]
                fin["b"] = [per[i] for i in range(self.nb)]
            self.cache.apply()
        except BaseException as e:  # observed, judged in TLA+
            fin["x"] = exc_name(e)
            if DEBUG:
                traceback.print_exc()
        fin["c"] = [self.sym_row(s) for s in self.S.objs]
        fin["r"] = [sorted(self.S.of(s) for s in b.references) for b in self.B.objs]
        return fin


# --------------------------------------------------------------------------
# bo: BlockOrdering
# --------------------------------------------------------------------------
class BO:
    kind = "bo"

    def __init__(self, case):
        self.n = case["n"]
        _, _, code, _, _ = make_module(n_code=self.n)
        self.B = Index(code)

    def reset(self):
        self.o = BlockOrdering()

    @staticmethod
    def _list(b, c):
        return [] if b == 0 else ([b] if c == 0 else [b, c])

    def do(self, op):
        c, a, l1, l2 = op
        blocks = [self.B.get(i) for i in self._list(l1, l2)]
        if c == 1:
            self.o.add_detached_blocks(blocks)
        elif c == 2:
            self.o.insert_blocks_after(self.B.get(a), blocks)
        elif c == 3:
            self.o.remove_block(self.B.get(a))
        elif c == 4:
            self.o.add_detached_blocks(iter(blocks))
        elif c == 5:
            self.o.insert_blocks_after(self.B.get(a), iter(blocks))
        else:
            raise RuntimeError(f"bad op {op}")
        return 0, self.obs()

    def obs(self):
        adj = []
        for b in self.B.objs:
            try:
                p, n = self.o.adjacent_blocks(b)
                adj.append([self.B.of(p), self.B.of(n)])
            except KeyError:
                adj.append([-1, -1])
        return {"adj": adj}


# --------------------------------------------------------------------------
# om: OffsetMapping
# --------------------------------------------------------------------------
def _dict_code(d) -> int:
    """dictionary {0: v0, 1: v1} -> v0 + 3 * v1 (a representation, not a judgement)"""
    if d is None:
        return -1
    try:
        if any(k not in (0, 1) or v not in (1, 2) for k, v in d.items()):
            return -99
        return d.get(0, 0) + 3 * d.get(1, 0)
    except Exception:
        return -98


def _code_dict(code: int) -> dict:
    d = {}
    if code % 3:
        d[0] = code % 3
    if code // 3:
        d[1] = code // 3
    return d


class OM:
    kind = "om"

    def __init__(self, case):
        self.n = case["n"]
        _, _, code, _, _ = make_module(n_code=1)
        # element ids may be nodes or UUIDs
        elems = [code[0]] + [uuid.UUID(int=i + 7) for i in range(self.n - 1)]
        self.E = elems
        self.eidx = {id(code[0]): 1}

    def elem_of(self, e) -> int:
        for i, x in enumerate(self.E):
            if x is e or (isinstance(x, uuid.UUID) and x == e):
                return i + 1
        return -2

    def reset(self):
        self.m = OffsetMapping()

    def off(self, x, d):
        return gtirb.Offset(element_id=self.E[x - 1], displacement=d)

    def do(self, op):
        c, x, a, b = op
        m = self.m
        val = 0
        if c == 1:
            m[self.off(x, a)] = b
        elif c == 2:
            m[self.E[x - 1]] = _code_dict(a)
        elif c == 3:
            del m[self.off(x, a)]
        elif c == 4:
            del m[self.E[x - 1]]
        elif c == 5:
            val = m.setdefault(self.off(x, a), b)
        elif c == 6:
            val = _dict_code(m.setdefault(self.E[x - 1], _code_dict(a)))
        elif c == 7:
            val = m.pop(self.off(x, a))
        elif c == 8:
            val = m.pop(self.off(x, a), 0)
        elif c == 9:
            val = _dict_code(m.pop(self.E[x - 1]))
        elif c == 10:
            val = _dict_code(m.pop(self.E[x - 1], None))
        elif c == 11:
            m[self.E[x - 1]][a] = b
        elif c == 12:
            m[self.E[x - 1]] = 7
        else:
            raise RuntimeError(f"bad op {op}")
        return val, self.obs()

    def obs(self):
        m = self.m
        univ = [(x, d) for x in range(1, self.n + 1) for d in (0, 1)]

        def getitem(k):
            try:
                return m[k]
            except KeyError:
                return None

        return {
            "len": len(m),
            "bool": int(bool(m)),
            "keys": [[self.elem_of(o.element_id), o.displacement] for o in m],
            "nk": [self.elem_of(e) for e in m.node_keys()],
            "get": [m.get(self.off(x, d)) or 0 for x, d in univ],
            "gi": [getitem(self.off(x, d)) or 0 for x, d in univ],
            "has": [[x, d] for x, d in univ if self.off(x, d) in m],
            "hasx": [x for x in range(1, self.n + 1) if self.E[x - 1] in m],
            "getx": [_dict_code(m.get(self.E[x - 1])) for x in range(1, self.n + 1)],
            "gix": [_dict_code(getitem(self.E[x - 1])) for x in range(1, self.n + 1)],
            "items": [[self.elem_of(o.element_id), o.displacement, v] for o, v in m.items()],
        }


# --------------------------------------------------------------------------
# is: IdentitySet
# --------------------------------------------------------------------------
class Key:
    """Hashable; equal to every Key with the same value."""

    def __init__(self, v):
        self.v = v

    def __eq__(self, other):
        return isinstance(other, Key) and other.v == self.v

    def __hash__(self):
        return hash(self.v)


def _bits(mask: int, n: int):
    return [i + 1 for i in range(n) if (mask >> i) & 1]


class IS:
    kind = "is"

    def __init__(self, case):
        self.n = case["n"]
        objs = []
        for i in range(self.n):
            pair = i // 2
            # pairs of equal-but-distinct objects: unhashable lists, hashable keys
            objs.append([pair] if pair % 2 == 0 else Key(pair))
        self.O = Index(objs)

    def reset(self):
        self.s = IdentitySet()

    def do(self, op):
        c, a, _, _ = op
        s = self.s
        val = 0
        L = [self.O.get(i) for i in _bits(a, self.n)]
        if c == 1:
            s.add(self.O.get(a))
        elif c == 2:
            s.discard(self.O.get(a))
        elif c == 3:
            s.remove(self.O.get(a))
        elif c == 4:
            val = self.O.of(s.pop())
        elif c == 5:
            s.clear()
        elif c == 6:
            s |= L
        elif c == 7:
            s -= L
        elif c == 8:
            s &= L
        elif c == 9:
            s ^= L
        elif c == 10:
            s = IdentitySet(L)
        else:
            raise RuntimeError(f"bad op {op}")
        self.s = s
        return val, self.obs()

    def obs(self):
        s = self.s
        return {"len": len(s), "bool": int(bool(s)),
                "elems": [self.O.of(x) for x in s],
                "has": [i + 1 for i, x in enumerate(self.O.objs) if x in s]}


# --------------------------------------------------------------------------
# re: ReturnEdgeCache           mc: make_return_cache
# --------------------------------------------------------------------------
T = gtirb.Edge.Type


class EdgeWorld:
    """Nodes 1, 2 = code blocks, 3 = proxy block; the edge universe of Containers.tla."""

    def __init__(self, universe):
        self.ir, self.m, code, _, proxies = make_module(n_code=2, n_proxy=1)
        self.nodes = [code[0], code[1], proxies[0]]
        self.universe = universe

    def edge(self, i: int) -> gtirb.Edge:
        s, t, ty = self.universe[i - 1]
        label = None if ty is None else gtirb.Edge.Label(ty)
        # a fresh, equal-but-distinct Edge object every time
        return gtirb.Edge(self.nodes[s - 1], self.nodes[t - 1], label)

    def edge_id(self, e: gtirb.Edge) -> int:
        for i in range(1, len(self.universe) + 1):
            if self.edge(i) == e:
                return i
        return -2

    def ids(self, edges):
        return sorted(self.edge_id(e) for e in edges)


RE_UNIVERSE = [(1, 3, T.Return), (1, 2, T.Return), (1, 2, T.Fallthrough),
               (2, 3, T.Return), (1, 3, T.Branch), (1, 2, None)]
MC_UNIVERSE = [(1, 3, T.Return), (1, 2, T.Fallthrough)]


class RE:
    kind = "re"

    def __init__(self, case):
        self.w = EdgeWorld(RE_UNIVERSE)

    def reset(self):
        self.c = ReturnEdgeCache()

    def do(self, op):
        c, a, _, _ = op
        cache = self.c
        w = self.w
        val = 0
        L = [w.edge(i) for i in _bits(a, len(RE_UNIVERSE))]
        if c == 1:
            cache.add(w.edge(a))
        elif c == 2:
            cache.discard(w.edge(a))
        elif c == 3:
            cache.remove(w.edge(a))
        elif c == 4:
            val = w.edge_id(cache.pop())
        elif c == 5:
            cache.clear()
        elif c == 6:
            cache.update(L)
        elif c == 7:
            cache |= L
        elif c == 8:
            cache -= L
        elif c == 9:
            cache &= L
        elif c == 10:
            cache = ReturnEdgeCache(L)
        else:
            raise RuntimeError(f"bad op {op}")
        self.c = cache
        return val, self.obs()

    def obs(self):
        c, w = self.c, self.w
        return {"edges": w.ids(c), "len": len(c),
                "any": [int(bool(c.any_return_edges(n))) for n in w.nodes],
                "ret": [w.ids(c.block_return_edges(n)) for n in w.nodes],
                "pret": [w.ids(c.block_proxy_return_edges(n)) for n in w.nodes]}


class Injected(Exception):
    pass


class _Stop(BaseException):
    """Ends a history that stops inside open contexts (after all recording)."""


class MC:
    """make_return_cache: the operations are executed inside real, properly
    nested `with` statements (recursion = nesting)."""
    kind = "mc"

    def __init__(self, case):
        self.init = case["init"]

    def reset(self):
        self.w = EdgeWorld(MC_UNIVERSE)
        orig = self.w.ir.cfg
        for i in _bits(self.init, len(MC_UNIVERSE)):
            orig.add(self.w.edge(i))
        self.objs = {1: orig}

    def obj_id(self, o) -> int:
        for k, v in self.objs.items():
            if v is o:
                return k
        return -2

    def obs(self):
        w = self.w
        node1 = w.nodes[0]
        return {
            "cur": self.obj_id(w.ir.cfg),
            "made": sorted(self.objs),
            "edges": [w.ids(self.objs[o]) if o in self.objs else [] for o in (1, 2, 3, 4)],
            "ret": [w.ids(self.objs[o].block_return_edges(node1)) if o in self.objs else []
                    for o in (2, 4)],
            "any": [int(bool(self.objs[o].any_return_edges(node1))) if o in self.objs else 0
                    for o in (2, 4)],
            "pret": [w.ids(self.objs[o].block_proxy_return_edges(node1)) if o in self.objs else []
                     for o in (2, 4)],
        }

    def run(self, ops):
        """Returns the list of [exc, val, obs] per executed operation."""
        res = [None] * len(ops)
        pos = {"i": 0, "pending": None}
        w = self.w
        ir = w.ir

        def body():
            while pos["i"] < len(ops):
                k = pos["i"]
                c, a, b, e = ops[k]
                pos["i"] = k + 1
                if c == 1:
                    old = self.obj_id(ir.cfg)
                    pos["pending"] = k          # an exception now belongs to op k
                    with make_return_cache(ir) as cache:
                        if self.obj_id(cache) == -2:
                            self.objs[{1: 2, 3: 4}.get(old, 9)] = cache
                        res[k] = ["", 0, self.obs()]
                        pos["pending"] = None
                        j = body()              # returns at the matching exit
                        pos["pending"] = j
                    # the context was left without an exception
                    res[j] = ["", 0, self.obs()]
                    pos["pending"] = None
                elif c == 2:
                    return k
                elif c == 3:
                    obj = self.objs[a]
                    if b == 1:
                        obj.add(w.edge(e))
                    else:
                        obj.discard(w.edge(e))
                    res[k] = ["", 0, self.obs()]
                elif c == 4:
                    if a not in self.objs:
                        self.objs[a] = gtirb.CFG()
                    ir.cfg = self.objs[a]
                    res[k] = ["", 0, self.obs()]
                elif c == 5:
                    pos["pending"] = k
                    raise Injected()
                else:
                    raise RuntimeError(f"bad op {ops[k]}")
            raise _Stop()

        try:
            body()
        except _Stop:
            pass
        except BaseException as e:  # propagated out of every context
            k = pos["pending"]
            if k is None:
                k = pos["i"] - 1
            res[k] = [exc_name(e), 0, self.obs()]
            if DEBUG:
                traceback.print_exc()
            return res[:k + 1]
        return [r for r in res if r is not None]


KINDS = {"rc": RC, "bo": BO, "om": OM, "is": IS, "re": RE, "mc": MC}


def run_ops(h, ops):
    """Fresh container, execute ops; returns [[exc, val, obs], ...] (stops at
    the first exception)."""
    h.reset()
    if isinstance(h, MC):
        return h.run(ops)
    res = []
    for op in ops:
        try:
            val, obs = h.do(op)
            res.append(["", val, obs])
        except BaseException as e:  # observed, judged in TLA+
            if DEBUG:
                traceback.print_exc()
            res.append([exc_name(e), 0, h.obs()])
            break
    return res


def run_case(case: dict) -> dict:
    h = KINDS[case["k"]](case)
    wit = [list(o) for o in case["wit"]]
    runs = []
    is_rc = isinstance(h, RC)
    base = run_ops(h, wit)
    fin0 = h.final(0, 0) if is_rc else []
    runs.append({"x": [], "same": 0, "res": base, "fin": fin0})
    if is_rc:
        # the witness state seen through the two other observation modes
        for mode in (1, 2):
            r = run_ops(h, wit)
            runs.append({"x": [], "same": int(r == base), "res": r if r != base else [],
                         "fin": h.final(mode, 0)})
    complete = len(base) == len(wit) and all(r[0] == "" for r in base)
    for j, x in enumerate(case["en"] if complete else []):
        r = run_ops(h, wit + [list(x)])
        fin = h.final(j % 3, j // 3) if is_rc else []
        same = int(r[:len(wit)] == base and len(r) == len(wit) + 1)
        runs.append({"x": list(x), "same": same, "res": r[-1:] if same else r, "fin": fin})
    out = {"id": case["id"], "k": case["k"], "init": case["init"], "wit": wit, "runs": runs}
    out["n"] = case.get("n", 0)
    out["nb"] = case.get("nb", 0)
    out["ns"] = case.get("ns", 0)
    return out


def main(argv):
    """runner.py CASES.ndjson TRACES.ndjson"""
    src, dst = argv[1], argv[2]
    n = 0
    with open(src) as f, open(dst, "w") as out:
        for line in f:
            line = line.strip()
            if not line:
                continue
            tr = run_case(json.loads(line))
            out.write(json.dumps(tr, separators=(",", ":")) + "\n")
            n += 1
    print(f"ran {n} cases")


if __name__ == "__main__":
    main(sys.argv)
