"""Generates /verif/MANIFEST.json from the table below (single source)."""
import json
import os

VERIF = os.path.dirname(os.path.dirname(os.path.abspath(__file__)))

CHECKS = {
    "C01": dict(
        text="TLC exhaustively explores the space of small modules x edit batches (spec/GenG1.tla), checks the design-level theorems of the listing semantics (conservation of original units, patches exactly once, length arithmetic) on every state, and emits every state as a case; the cases are replayed into the real RewritingContext.apply() and each observed execution is judged by TLC (spec/TraceG1.tla) against BytesOf(Edit(Flat(pre), reqs)) = section bytes.",
        note="Trusted: capstone as observer of instruction boundaries, standalone assembler output as the patch bytes (validated by C12), gtirb/gtirb-layout. Bounds: <=3 blocks, <=3 requests per batch (see evidence mc_runs).",
        technique="TLA+ listing-refinement spec; TLC exhaustive case generation replayed into the code + TLC trace validation of observed executions",
        ref="5/C01"),
    "C02": dict(
        text="Same construction as C01 with symbol-rich shapes (start and at_end labels, proxied deletions, chains of whole-block deletions, patches defining labels); TLC judges resolved symbol positions against the label positions of the edited listing, proxy membership, patch labels modulo temp suffix, and that no symbol is stranded.",
        note="As C01. Open finding KF-C02-1 is excused only under its narrow signature (spec/G1Findings.tla).",
        technique="TLA+ listing-refinement spec; TLC case generation + trace validation",
        ref="5/C02"),
    "C04": dict(
        text="Same construction with symbolic expressions in code and data and block-/interval-keyed offset aux data at every boundary around the edits; TLC judges annotation positions of the post-state against those of the edited listing, bounds, and identity of expression symbols.",
        note="As C01. CFI directive positions are judged by C08's clauses.",
        technique="TLA+ listing-refinement spec; TLC case generation + trace validation",
        ref="5/C04"),
    "C06": dict(
        text="Same construction over function layouts (none, one, split, function-less head); TLC judges per-instruction function attribution, partition/closure of the three tables, entry promotion along chains of deleted blocks, disappearance of emptied functions.",
        note="As C01.",
        technique="TLA+ listing-refinement spec; TLC case generation + trace validation",
        ref="5/C06"),
}

CHECKS["C03"] = dict(
    text="Same construction over CFG-rich shapes (every terminator kind, callers/callees/function layouts) and patches ending in jmp/jcc/call/ret/labels; TLC computes the per-instruction control flow of the edited listing (fallthrough, branch/call targets by label position, return sites of calls per function) and judges the observed CFG flattened to instructions, buried terminators and dead endpoints.",
    note="As C01. Clauses are split (Fallthrough / BranchCall / Returns / NoBuriedTerminator / EndpointsAlive / FallthroughAdjacent) so that the open findings KF-C03-1..7 (each excused only element-wise under a narrow signature, spec/G1Findings.tla) leave the rest armed. Domain: input CFG equals the listing's control flow; no instruction falls into data.",
    technique="TLA+ listing-refinement spec with per-instruction CFG semantics; TLC case generation + trace validation",
    ref="5/C03")
CHECKS["C05"] = dict(
    category="fault_enumeration",
    text="Every generated case is executed once normally and once per patch invocation k with an exception injected into the k-th patch callback (plus one non-assembling patch); after success or failure the harness observes the whole IR (aux-data closure scan, addresses, protobuf round trip, identity of ir.cfg) and TLC judges closure, well-formedness, zero-sized-block justification, serializability and the failure clauses.",
    note="As C01; the protobuf round trip is performed by the harness and compared by canonical hash. Fault points = patch callbacks (the property's quantifier).",
    technique="TLA+ trace validation of fault-injected executions generated from the TLC-explored shape space",
    ref="5/C05")

CHECKS["C08"] = dict(
    text="Same construction over shapes with CFI procedures (directives at block starts, instruction boundaries and block ends; remember/restore) and patches with balanced CFI; CFI directives are items of the listing, Edit applies the deletion/insertion rules, and the unwind state in effect at every instruction is computed by the specification's own evaluator (spec/CfiEvalOps.tla, shared with C15) for the edited listing and for the observed post-state and compared; plus the property-literal clauses (membership, state preserved without deletions, structure, still evaluates).",
    note="As C01. The evaluator is the spec's, not the library's (C15 validates the latter). Escapes and operands >= 2^31 are out of domain; a deleted range holding a whole procedure is out of the structural clauses' domain. The initial row is not part of the compared state.",
    technique="TLA+ listing-refinement spec with CFI items and a TLA+ DWARF CFA evaluator; TLC case generation + trace validation",
    ref="5/C08")
CHECKS["C09"] = dict(
    text="Every generated batch is executed twice: once in one apply() with a hook sink recording, after each insert/delete and before each patch is assembled, the answers of the four rewrite caches next to what the IR itself says, and once request by request, each in its own RewritingContext. TLC judges cache coherence at every step, the direct view of the symbols a patch names, and equality of all Level-A observables of the two results.",
    note="As C01. The one-at-a-time order is: blocks in address order, inside a block by descending offset (needs no re-anchoring because the head of a split block keeps identity and offsets). Batch/sequential CFG differences are excused only edge-wise under the open CFG findings; KF-C09-1 open.",
    technique="TLA+ trace validation of hook-observed cache states and of batch-vs-sequential executions generated from the TLC-explored shape space",
    ref="5/C09")
CHECKS["C11"] = dict(
    text="Cases from the TLC-explored shape x batch space are each executed in fresh processes under several PYTHONHASHSEED values (fresh UUIDs) and under admissible permutations of the registration order; TLC (spec/TraceDet.tla) judges that all canonical finals of a case - block boundaries, edge sets, temp-label names, aux reference counts - are equal. The order-independence of the semantics itself (Edit never looks at application order) is what GenG1.tla/Listing.tla model-check.",
    note="Hash-order nondeterminism can only be sampled (4 seeds quick, 16 thorough); canonical form = projection without UUID-derived ids and addresses.",
    technique="TLA+ judged cross-run comparison of executions under varied hash seeds / registration permutations; TLC-generated cases",
    ref="5/C11")
CHECKS["C14"] = dict(
    text="spec/Dwarf.tla is an independent DWARF v4 codec written from the standard (opcode tables, LEB128 on bit sequences anchored by test vectors, fixed-width two's complement LE/BE, fused lit/reg/breg and low-6-bit CFA forms, expression blocks, shortest-constant chooser). TLC checks round trip, prefix-freedom, ParseAll of Concat, classification of all 256 first bytes, chooser minimality and table integrity on every state of an encoder/decoder session and emits every state as a case; each case is replayed into the real encode/decode/parse_cfi_instructions/gtirb_encoding/make_const_op and spec/TraceDwarf.tla judges bytes, objects, lengths and exception types.",
    note="Trusted: the runner's DW_* name to class binding, GNU-as directive semantics as specified, gtirb's aux-data serializer as observer. Operand values are boundary-sampled (0, +-1, +-(2^k-1), +-2^k, +-(2^k+1), seeded random up to 66 bits), not all of [-2^63, 2^64); streams have at most 2 instructions. KF-C14-1 open.",
    technique="TLC model-checks an independent TLA+ codec, emits every state as a conformance case, and judges the real codec's traces",
    ref="5/C14")

CHECKS["C15"] = dict(
    text="spec/CfiEval.tla is the DWARF call-frame machine as driven by .cfi_* directives (one named action per directive, outcome Ok/CFIStateError/ValueError); TLC explores every directive sequence up to length 3 (quick) / 4 (thorough) over registers {1,2}, offsets {0,8,-8}, pointer encodings with/without symbol and escapes, plus a small alphabet to length 5/7 and simulated nested remember/restore runs, checks 11 spec invariants, and emits every path as a case; each path is replayed into the real evaluate_cfi_directives under five ABIs (copy at yield, projection after exhaustion) and judged by TLC against the pure evaluator CfiRun (spec/CfiEvalOps.tla): states, copies independent, error types. The entries of one block at several offsets are inserted into the table in ascending, descending or shuffled order, also after a protobuf round trip of the module; the expectation (CfiRun) has no notion of insertion order.",
    note="Bounded operands and lengths; escapes from a 7-entry catalogue (operand codecs belong to C14); x64-pe / ia32-pe procedures are out of domain (NotImplementedError for the return column). The ABI's default return column is taken as a parameter of the library, not judged. KF-C15-3 (.cfi_rel_offset semantics) is open and excused only when the spec under exactly that deviation predicts the run.",
    technique="exhaustive TLC state graph of a TLA+ CFA machine, every path replayed into the real evaluator, TLC trace validation",
    ref="5/C15")

CHECKS["C16"] = dict(
    text="spec/StackMachine.tla is an abstract machine for emitted code (sp, word slots, written set, register/flag tokens, ~35 event kinds); spec/AbiGen.tla (Level B) mirrors _allocate_patch_registers and the five _create_prologue_and_epilogue. TLC exhaustively enumerates ABI x clobber subset x clobbers_flags x align_stack x preserve_caller_saved x scratch count x reads x leaf x start alignment x the spelling of register names in the constraints (canonical / upper case / sub-register / mixed case), executes the designed event sequence on the machine and checks every property clause in every state; every configuration is emitted as a case and replayed into the real generators, the prologue + body + epilogue are assembled by the real Assembler, decoded by capstone into events, replayed through the same machine and judged by TLC (spec/TraceStack.tla). Histories insert ONE Patch object at 2-3 sites of a single apply() (insert_at loop, AllBlocksScope, AllFunctionsScope; mixed leaf-ness) and every clause is evaluated at every site, the body being located by its own bytes so that any prologue / epilogue - even none - is judged. Requests at the end of each ABI's scratch pool (exact fit, one more) are judged against psABI candidate sets (C16_RefusesUnservable). spec/LeafHist.tla models the leafFunctions table over histories of 2-4 RewritingContexts on one module (contexts given different function lists, calls added to leaf functions): TLC checks SkipIfMayBeLeaf / TableIsOriginal / FirstSeenSticks on every history, every history is replayed through real contexts and the code found at every patched site is judged with leaf = 'the original function contains no call'.",
    note="Trusted: capstone as observer; the instruction semantics of StackMachine.tla; the patch body as havoc of the declared resources; psABI facts. Bounds: 4 (quick) / 6 (thorough) register universes per ABI, 3-5 reads choices, scratch in {0,1,3} / {0,1,2,3,7}. An instruction that touches sp/memory and is not in the table makes a case out of domain (never observed).",
    technique="TLA+ stack machine + Level-B generator model; TLC exhaustive MC with case emission; replay with bytes-to-events decoding; TLC trace validation",
    ref="5/C16")
CHECKS["C17"] = dict(
    text="Same construction with spec/CallGen.tla: TLC enumerates argument lists (0..16 arguments; small/negative/imm32 and imm64 boundaries/ARM 16-bit boundaries/symbol/callable), default and custom conventions, constraint overrides producing every prologue adjustment, start alignments, and histories in which ONE CallPatch object is used at 2-3 insertion sites (direct get_asm calls and a real RewritingContext rewrite) with callables whose value depends on the insertion context; at the call it checks argument registers, stack arguments, shadow space and alignment, at the end stack neutrality. Cases are replayed into the real CallPatch(...).get_asm with its real prologue/epilogue, assembled, decoded and judged by TLC. One CallPatch object at several sites (direct get_asm calls and real rewrites) with context-dependent callables: C17_CallableSeesItsContext plus stack neutrality and restoration at every site.",
    note="As C16; integers are byte-list tokens read back from the encoding; the expected conventions are the psABI defaults. KF-C17-2 (x86-64 stack-passed integers beyond imm32) and KF-C17-3 (x86 symbol arguments loaded instead of their address) are open and excused only under narrow signatures.",
    technique="TLA+ stack machine + Level-B call generator model; TLC exhaustive MC with case emission; replay + TLC trace validation",
    ref="5/C17")

CHECKS["C18"] = dict(
    text="spec/Retarget.tla models the module as finite relations (symbols internal/external, use sites: control-flow operands, code references, data words, CFI personality/LSDA, symbolForwarding; attributes; PIE; ABI) and defines Expected(M, map, rules): every mention of a key replaced once (chains not transitive), addend kept, attributes converted by the unique matching ABI rule, exactly the branch/call edges of the instruction whose operand was a key moved, return edges following the calls, refusals. TLC checks 17 theorems of Expected on every enumerated configuration and emits each as a case; the cases are replayed through retarget_symbol_uses + apply() and spec/TraceRetarget.tla judges Expected(observed pre) against the observed post with seven C18_* clauses. Combined histories retarget A->B and delete A in one context (C18_ThenDeleted applies DelSym's Expected to the retargeted module); control transfers through the GOT slot (`call *A@GOTPCREL(%rip)`, edges with direct=False) must move with the operand while an unrelated `jmp *%rax` must not.",
    note="The pre-state is an identical build after apply() without the retargets; a conformance predicate binds the rendered module to the spec's module. Cases are a stratified seeded sample of the MC states; one control-flow instruction per block; the attribute rules are written from the psABI documents and matched abi.py on every case. KF-C18-1 (returns do not follow a retargeted call) and KF-C18-2 (MIPS32 jal not recognised as control flow) are open.",
    technique="TLC exhaustive MC of a relational TLA+ spec with case emission; real-library replay; TLC trace judgement",
    ref="5/C18")
CHECKS["C19"] = dict(
    text="spec/DelSym.tla models every symbol-carrying table, the CFI directives and the expressions as relations; Expected(D, del) and Outcome cover null-UUID CFI with DW_EH_PE_omit, SymbolUsesRemainingError iff an unforced deleted symbol is used, version GC with base definitions kept, libraries dropped iff emptied, and the force-merge rule. TLC checks the theorems (no trace left, only that, idempotence, stepwise = at once, version tables well-formed) in three modes (pairwise table membership, exhaustive version sharing, exhaustive three-symbol lattice); cases are replayed through delete_symbol + apply() and judged by nine C19_* clauses including a protobuf round trip. Mode `combo` judges deletions on top of a retarget registered in the same context; mode `fwd` enumerates symbolForwarding tables in which several keys share one value (the shared target deleted alone, with a forwarder, or the forwarder alone), ELF and PE.",
    note="Sampled replay of the MC states; the lattice is exhaustive over 3-4 representative features, not all 14. A base version definition with flags BASE|WEAK is excluded from the enumeration (observation, DESIGN.md 6).",
    technique="TLC exhaustive MC of a relational TLA+ spec with case emission; real-library replay; TLC trace judgement",
    ref="5/C19")

CHECKS["C10"] = dict(
    text="TLC completely enumerates a finite space of byte-interval layouts (size <=5 quick / <=6 thorough, every initialized_size, <=3 blocks at every (offset,size) incl. zero-sized, overlapping and beyond-initialized ones, code/data kinds, alignments {2,4,8}, annotations at every offset, with and without address) and checks that a line-by-line TLA+ model of split_byte_interval / join_byte_intervals (actions Split, Grow, Annotate, Join) satisfies the Level-A clauses SplitPreserves, JoinInverts, AlignmentHolds, PaddingLegal; every layout is emitted as a case and run through the real functions under call variants (default/custom tables, alignment as argument / aux table / none, nop / nop_encodings / ABI nop / none, growth, late annotation) and through an empty RewritingContext.apply() for the 5 ABIs; TLC judges each observed run with the same operators plus EmptyApplyIdentity and Completes. The entries of every table are inserted in ascending, descending or shuffled order (a mapping has no order). The `alpatch` family inserts real patches containing `.align N` into modules whose alignment table is absent / empty / populated (ELF and PE) and the model has an AddAlignment action between Split and Join, so requirements added during the rewrite must hold after the join.",
    note="Exhaustive within the config bounds (exhaustive: true). Ties the code breaks by set-iteration order are existentially quantified in Level A. Level-B prediction vs observation is reported as drift (0). Blocks lie inside their interval; alignments are powers of two <= 8; default decode mode. KF-C10-1 (only the first aligned block of a group is aligned) is open.",
    technique="TLC explicit-state check of a TLA+ refinement over a completely enumerated layout space + TLC trace validation of the real code on every enumerated layout",
    ref="5/C10")

CHECKS["C07"] = dict(
    text="spec/Scopes.tla is an explicit state machine of scope registration and application: passes register (scope, patch) pairs one at a time on one shared store (Register, NewPass; function scopes refused without functions), Apply resolves sites block by block in address order (block-keyed then scope-keyed modifications, first potential offset, stable sort by (offset, id)). TLC checks ExactlyOncePerMatchingBlock, NoSiteInNonMatchingBlock, NeverAfterTerminator, OrderIsRegistrationOrder, AppliedEqualsSites, RefusalIsExact exhaustively over small modules x registration lists, emits every terminal state as a case; the cases are replayed through the real PassManager with marker patches (unique immediate chosen inside get_asm, recording the InsertionContext) and spec/TraceScopes.tla judges invocations, placement, order, context names and refusals. A dedicated space (`Scopes_loose_{q,t}.cfg`) has function-less code and data blocks behind function blocks (layouts head / mid / gap) with filters naming the preceding function; the clause C07_ContextFunction requires the InsertionContext's function to be the function of the named original block (none for loose blocks). Template `sysc`: a block ending in a system call (Syscall + Fallthrough edges).",
    note="Bounds: <=3 blocks, all terminator kinds plus zero-sized and data blocks, 0-2 functions, function tables present/empty/absent, x64 ELF + ia32 PE + arm64, 1-3 passes x 0-3 registrations, name filters from a small pattern language. Conformance runs on a seeded sample of the generated cases. ANYWHERE is judged by the weak statement (an instruction boundary not after the terminator).",
    technique="TLC exhaustive model checking of the registration/application state machine, TLC-generated cases replayed into PassManager, TLC trace validation of marker positions and InsertionContexts",
    ref="5/C07")

CHECKS["C20"] = dict(
    text="TLC exhaustively checks that the implementation-shaped RefNode forest of ReferenceCache (spec/RefCache.tla: parent/children/symbols, _referents, _references, direct referents; retarget linking trees, get_referent with path compression and pruning, lazily and partially consumed get_references, apply) refines ref: Sym -> (Block|None) x BOOLEAN after every action, for all histories up to length 5 (quick) / 6 (thorough) over 3 blocks x 3 symbols including retarget cycles, self-retarget and no-ops; the complete state graphs of five small machines (BlockOrdering incl. the linked-node level, OffsetMapping, IdentitySet, ReturnEdgeCache incl. its index dicts, make_return_cache with nesting, replacement, modification and injected exceptions) are checked the same way. Every distinct model state is bound to the code by frontier replay (a witness history plus every enabled operation, each on a fresh replay, run into the real containers), and TLC compares every returned value, observation and exception with the abstract model.",
    note="Quick model-checks to depth 5 but replays all states up to depth 3 plus a seeded sample of deeper ones (exhaustive false); thorough replays every emitted state (exhaustive true). The RefCache state space is quotiented by node renaming and block/symbol permutations (canonical-form VIEW). Python set iteration order is uncontrolled; verdicts are order-independent.",
    technique="TLA+/TLC refinement checking of a two-level spec, frontier replay (hidden-history VIEW) into the real containers, trace spec with exact equalities against the abstract model",
    ref="5/C20")

CHECKS["C12"] = dict(
    text="spec/Asm.tla is the streaming assembler as a state machine over tokens (one action per streamer callback mirroring _State, Finalize = the three passes). TLC exhaustively explores all token sequences up to 4 (quick) / 5 (thorough) tokens from 11-13-token vocabularies with trivially_unreachable and implicit_cfi in BOOLEAN and checks on every final state the Level-A clauses Decode, Tiling, TerminatorsEndBlocks, EdgeShape, Fallthrough, Labels, DataConversion, Operands, Alignment, Completes. A seeded sample of the emitted programs is rendered for 11 targets (x64 AT&T/Intel, IA32, ARM64, MIPS32 x ELF/PE, PIE on x86 ELF), assembled by the real Assembler, decoded token-guided with capstone, and judged by TLC with the same operators. Further vocabularies: `ops` (ARM64 / MIPS operands whose addend or relocation modifier is invisible in the bytes: literal loads, :lo12:, :got:, %hi/%lo/%got, with addends; transfers to targets with an addend must be refused), `str` / `strc` (string literals and stand-alone NULs, across section switches and chunks: C12_Strings), constant branch targets, `x86ops` (address-of operands on x86). Every other sampled case uses an alternative spelling of its direct transfers / address-of operands (jrcxz, cbz, tbnz, bal, RIP-relative operands followed by an immediate ...).",
    note="Model checking exhaustive within the configs; conformance sampled (4 000 quick / 60 000 thorough). Level-B drift is reported, never a verdict (0). One fixed rendering per token and target; data-token lengths come from the spec, instruction sizes are observed. KF-C12-1 (MIPS32 jr $ra gets a branch edge, not a return) is open.",
    technique="TLA+/TLC model checking of a token-level assembler machine with spec->code case generation and code->spec trace validation",
    ref="5/C12")
CHECKS["C13"] = dict(
    text="The same state machine over the symbol vocabulary (module symbol sets, allow_undef) and over all chunkings of token sequences: invariants for the MultipleDefinitions/Undef error discipline with per-chunk label visibility, Binding, TempSuffix, and Chunking (chunked result = whole emission with a .text switch at former chunk boundaries). Cases run through the real Assembler chunk by chunk and whole; a third of the single-chunk cases are also inserted with RewritingContext + AllBlocksScope at N in {1,2,3,5} sites (constraints forcing prologue/epilogue chunks) for UniqueNames and Completes. Constant assignments (`name = v`, `.set`) take part in the MultipleDefinitions discipline across chunks (C13_Assignments). spec/AsmRw.tla models RewritingContext._patch_id numbering and get_or_insert_extern_symbol: real rewrites with several insertions and inserted functions re-using one temporary label, and extern requests for names that already exist in any form, are judged by C13_UniqueAcrossPatches and C13_ExternBinding. Vocabulary `attr`: ELF symbol-attribute directives (.weak / .globl / .hidden / .type) naming labels, module symbols and unknown names (action EmitSymbolAttribute; C13_SymAttrs; the directive is a mention for the Undef / MultipleDefinitions discipline).",
    note="Chunking domain: no forward cross-chunk reference, CFI balanced per chunk, each chunk starts in .text. Rewrites are in domain only for the 5 ABI targets. KF-C13-1 (a patch with an empty section crashes apply()) is open.",
    technique="TLA+/TLC model checking with spec->code case generation and code->spec trace validation",
    ref="5/C13")

PENDING = {}


def main():
    props = [json.loads(l) for l in open(os.path.join(VERIF, "properties.jsonl"))]
    checks = []
    na = []
    for p in props:
        pid = p["id"]
        if pid in CHECKS:
            c = CHECKS[pid]
            checks.append({
                "property_id": pid,
                "quick_cmd": f"./check {pid} --tier quick",
                "thorough_cmd": f"./check {pid} --tier thorough",
                "evidence_file": f"evidence/{pid}.json",
                "replay_cmd_template": f"./check {pid} --replay {{path}}",
                "engine": "tlc",
                "level_claimed": {"category": c.get("category", "model_checking"),
                                  "text": c["text"], "design_ref": "DESIGN.md " + c["ref"]},
                "level_note": c["note"],
                "technique": c["technique"],
            })
        else:
            na.append({"property_id": pid,
                       "reason": PENDING.get(pid, "check not built yet in this round; planned per DESIGN.md section 5 (no verdict is claimed until the TLA+ spec and its binding exist)")})
    man = {
        "version": 1,
        "setup_cmd": "./setup.sh",
        "hooks": {
            "guard": "GTIRB_REWRITING_VERIF",
            "enable": "checks run the library from /repo's working tree (editable install in /venv) with GTIRB_REWRITING_VERIF=1 in the environment of the runner subprocesses",
            "baseline_off_cmd": "cd /repo && env -u GTIRB_REWRITING_VERIF /venv/bin/python -m pytest -ra -q -p no:cacheprovider --timeout=900 --continue-on-collection-errors",
            "source_commits": ["a408535", "1b839a1", "23caf2a"],
            "add_only": True,
        },
        "engines": [{"name": "tlc", "path": "/usr/local/bin/tlc",
                     "serves_properties": sorted(CHECKS),
                     "kind_free_text": "TLC 1.8 model checker: exhaustive exploration of the TLA+ specs in spec/, case generation, and validation of traces recorded from the real library"}],
        "checks": checks,
        "not_applicable": na,
        "notes": "See DESIGN.md. Exit codes: 0 held, 1 VIOLATION, 2 machinery failure.",
    }
    with open(os.path.join(VERIF, "MANIFEST.json"), "w") as f:
        json.dump(man, f, indent=1)
    print(f"{len(checks)} checks, {len(na)} not applicable")


if __name__ == "__main__":
    main()
