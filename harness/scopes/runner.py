"""Run C07 cases (shape + passes of scope registrations) through the real
PassManager and record a trace: the projected pre-state, the registrations as
made, one record per *invocation* of a marker patch (the InsertionContext it
received), the place of every marker in the output, the exception (if any).
Nothing here computes an expected result; all judging is in TraceScopes.tla.

Marker patch: one fixed-size instruction whose immediate is chosen inside
get_asm, unique per invocation:
  x86      testl $0x4D4Bnnnn, %eax      A9 nn nn 4B 4D          (5 bytes)
  arm64    mov   w9, #0x4nnn            52800009 | imm16 << 5   (4 bytes)
"""
import json
import os
import re
import sys
import traceback
from typing import Any, Dict, List

import gtirb

import gtirb_rewriting
from gtirb_rewriting import (
    AllBlocksScope,
    AllFunctionsScope,
    BlockPosition,
    FunctionPosition,
    Pass,
    PassManager,
    Patch,
    SingleBlockScope,
    patch_constraints,
)
from gtirb_rewriting.assembly import X86Syntax

from ..g1.project import Projector
from ..g1.render import render

X86_TAG = 0x4D4B0000
ARM_TAG = 0x4000


def marker_text(isa: str, inv: int) -> str:
    if isa in ("x64", "ia32"):
        return f"testl $0x{X86_TAG | inv:x}, %eax"
    if isa == "arm64":
        return f"mov w9, #0x{ARM_TAG | inv:x}"
    raise NotImplementedError(isa)


def find_markers(isa: str, post: dict) -> List[dict]:
    """Every occurrence of a marker encoding in the section bytes, with the
    flag whether a decoded instruction starts there."""
    out = []
    for sec in post["secs"]:
        data = bytes(sec["bytes"])
        starts = set()
        for b in sec["blocks"]:
            if b["k"] == "code":
                for un in b["units"]:
                    starts.add(b["p"] + un["o"])
        if isa in ("x64", "ia32"):
            for i in range(0, len(data) - 4):
                if data[i] == 0xA9 and data[i + 3] == 0x4B and data[i + 4] == 0x4D:
                    out.append({"inv": data[i + 1] | (data[i + 2] << 8), "s": sec["name"],
                                "p": i, "al": i in starts})
        elif isa == "arm64":
            for i in range(0, len(data) - 3):
                w = int.from_bytes(data[i:i + 4], "little")
                if (w & 0xFFE0001F) == 0x52800009 and ((w >> 5) & 0xF000) == ARM_TAG:
                    out.append({"inv": (w >> 5) & 0x0FFF, "s": sec["name"], "p": i,
                                "al": i in starts})
    return out


def slim(st: dict) -> dict:
    """The part of the projection that the C07 clauses read."""
    return {
        "secs": [{
            "name": sec["name"], "bytes": sec["bytes"],
            "blocks": [{"u": b["u"], "k": b["k"], "p": b["p"], "n": b["n"],
                        "units": [{"o": un["o"], "n": un["n"], "k": un["k"]} for un in b["units"]],
                        "fn": b["fn"], "ent": b["ent"]} for b in sec["blocks"]],
        } for sec in st["secs"]],
        "edges": [{"s": e["s"], "t": e["t"], "ty": e["ty"]} for e in st["edges"]],
        "fns": [{"name": f["name"]} for f in st["fns"]],
        "entry": st["entry"],
    }


def pattern_obj(p: dict):
    """The tiny pattern language of Scopes.tla -> what the API takes."""
    k, n = p["k"], p["n"]
    if k == "lit":
        return n
    if k == "relit":
        return re.compile(n)
    if k == "prefix":
        return re.compile(n + ".*")
    if k == "any":
        return re.compile(".*")
    if k == "main":
        return gtirb_rewriting.MAIN_NAME
    if k == "ep":
        return gtirb_rewriting.ENTRYPOINT_NAME
    raise ValueError(k)


def scope_obj(sc: dict, r):
    pos = BlockPosition[sc["pos"]]
    filt = {pattern_obj(p) for p in sc["pats"]} if sc["has"] else None
    if sc["kind"] == "allblocks":
        return AllBlocksScope(pos, filt)
    if sc["kind"] == "allfuncs":
        return AllFunctionsScope(FunctionPosition[sc["fpos"]], pos, filt)
    if sc["kind"] == "single":
        return SingleBlockScope(r.blocks[0][sc["blk"]], pos)
    raise ValueError(sc["kind"])


def run_case(case: dict) -> dict:
    shape = dict(case["shape"])
    isa = shape.get("isa", "x64")
    if not shape.get("entry_point"):
        shape.pop("entry_point", None)
    fnt = shape.get("fntables", "present" if shape.get("functions", True) else "empty")
    r = render(shape)
    if fnt == "absent":
        for t in ("functionEntries", "functionBlocks", "functionNames"):
            r.module.aux_data.pop(t, None)
    proj = Projector(r.module)
    pre = proj.project()
    invs: List[dict] = []
    state = {"stage": "register", "n": 0}
    regs: List[dict] = []

    def make_patch(reg_id: int) -> Patch:
        @patch_constraints(x86_syntax=X86Syntax.ATT)
        def marker(ctx):
            inv = state["n"]
            state["n"] += 1
            fn = ctx.function.get_name() if ctx.function is not None else ""
            blk = ctx.block
            invs.append({
                "inv": inv, "reg": reg_id,
                "u": proj.uid(blk) if isinstance(blk, gtirb.ByteBlock) else 0,
                "off": int(ctx.offset), "fn": fn,
                "modok": ctx.module is r.module,
            })
            return marker_text(isa, inv)

        return Patch.from_function(marker)

    @patch_constraints(x86_syntax=X86Syntax.ATT)
    def newfn_body(ctx):
        return "ret"

    passes_in = case["passes"]
    plan = []  # per pass: list of (reg id, scope description)
    k = 0
    for pi, scs in enumerate(passes_in):
        cur = []
        for sc in scs:
            cur.append((k, sc))
            regs.append({
                "id": k, "pass": pi + 1, "kind": sc["kind"], "pos": sc["pos"],
                "fpos": sc["fpos"], "has": bool(sc["has"]), "pats": sc["pats"],
                "u": proj.uid(r.blocks[0][sc["blk"]]) if sc["kind"] == "single" else 0,
            })
            k += 1
        plan.append(cur)

    class RegisteringPass(Pass):
        def __init__(self, idx, items):
            self.idx = idx
            self.items = items

        def begin_module(self, module, functions, rewriting_ctx):
            for reg_id, sc in self.items:
                rewriting_ctx.register_insert(scope_obj(sc, r), make_patch(reg_id))
            if self.idx == 0 and case.get("insfn"):
                # a function inserted by the same apply(): the scopes designate blocks of the
                # module as it is, never the code the rewrite itself brings in
                rewriting_ctx.register_insert_function("vfy_newfn", Patch.from_function(newfn_body))
            if self.idx == len(plan) - 1:
                state["stage"] = "apply"

        def end_module(self, module, functions):
            if self.idx == len(plan) - 1:
                state["stage"] = "done"

    exc = ""
    try:
        pm = PassManager()
        for pi, items in enumerate(plan):
            pm.add(RegisteringPass(pi, items))
        pm.run(r.ir)
    except BaseException as e:  # observed, judged in TLA+
        exc = type(e).__name__
        if os.environ.get("VERIF_DEBUG"):
            traceback.print_exc()
    post = proj.project()
    return {
        "id": case["id"], "isa": isa, "pre": slim(pre), "regs": regs, "invs": invs,
        "markers": find_markers(isa, post),
        "postsecs": [{"name": s["name"], "bytes": s["bytes"]} for s in post["secs"]],
        "exc": exc, "stage": state["stage"], "npass": len(plan),
    }


def main(argv):
    """runner.py CASES.ndjson TRACES.ndjson"""
    src, dst = argv[1], argv[2]
    n = 0
    with open(src) as f, open(dst, "w") as out:
        for line in f:
            line = line.strip()
            if not line:
                continue
            case = json.loads(line)
            tr = run_case(case)
            out.write(json.dumps(tr, separators=(",", ":")) + "\n")
            n += 1
    print(f"ran {n} cases")


if __name__ == "__main__":
    main(sys.argv)
