"""Run ABI / CallPatch configurations through the real library and record what
it emitted, as a trace for spec/TraceStack.tla.

For each configuration (a TLC-generated case) the REAL
``ABI._allocate_patch_registers`` and ``ABI._create_prologue_and_epilogue``
are called (C16), or the REAL ``CallPatch(...).get_asm(ctx)`` with its real
prologue / epilogue (C17).  Prologue + body + epilogue are assembled by the
real ``Assembler`` exactly as ``RewritingContext._invoke_patch`` does, the
bytes are decoded by capstone and each instruction is translated into an
abstract event of spec/StackMachine.tla by a per-ISA table of the instruction
forms the generators use.  An instruction outside the table that touches the
stack pointer or memory makes the case OUT-OF-DOMAIN (``ood``).  Immediates
and offsets are read back from the ENCODED bytes (capstone operands), never
from the assembly text.

Nothing here computes an expected value: the trace only says what the library
returned / raised and what the bytes it produced do.
"""
import dataclasses
import json
import os
import sys
import traceback
from typing import Any, Dict, List, Optional, Tuple

import uuid

import capstone
import gtirb
import gtirb_functions
from capstone import arm64_const as A64
from capstone import mips_const as MIPS
from capstone import x86_const as X86

import gtirb_rewriting
from gtirb_rewriting import (AllBlocksScope, AllFunctionsScope, BlockPosition, Constraints,
                             FunctionPosition, InsertionContext, Patch, RewritingContext)
from gtirb_rewriting.abi import ABI, CallingConventionDesc
from gtirb_rewriting.assembler import Assembler
from gtirb_rewriting.patches import CallPatch

FF = gtirb.Module.FileFormat
ISA = gtirb.Module.ISA

TARGETS = {
    "x64elf": (ISA.X64, FF.ELF, capstone.CS_ARCH_X86, capstone.CS_MODE_64),
    "x64pe": (ISA.X64, FF.PE, capstone.CS_ARCH_X86, capstone.CS_MODE_64),
    "ia32pe": (ISA.IA32, FF.PE, capstone.CS_ARCH_X86, capstone.CS_MODE_32),
    "arm64": (ISA.ARM64, FF.ELF, capstone.CS_ARCH_ARM64, capstone.CS_MODE_ARM),
    "mips32": (ISA.MIPS32, FF.ELF, capstone.CS_ARCH_MIPS,
               capstone.CS_MODE_MIPS32 + capstone.CS_MODE_BIG_ENDIAN),
}
NOPS = {ISA.X64: b"\x90", ISA.IA32: b"\x90", ISA.ARM64: b"\x1f\x20\x03\xd5",
        ISA.MIPS32: b"\x00\x00\x00\x00"}
CALLEE = "callee_fn"
LIMIT = 1 << 24          # offsets / adjustments beyond this are not modelled


class OutOfDomain(Exception):
    pass


# --------------------------------------------------------------------------
# module under test
# --------------------------------------------------------------------------
class Target:
    def __init__(self, abi_name: str, nblocks: int = 3, data: bool = True, funcs=()):
        """nblocks site blocks; data: an extra block for the symbols gsym<i>;
        funcs: (block index, has a call) -> that block is a function of its
        own (with a call edge the function is not a leaf)."""
        isa, ff, arch, mode = TARGETS[abi_name]
        self.name = abi_name
        self.ir = gtirb.IR()
        self.module = gtirb.Module(name="m", isa=isa, file_format=ff, ir=self.ir)
        sect = gtirb.Section(
            name=".text", module=self.module,
            flags={gtirb.Section.Flag.Readable, gtirb.Section.Flag.Executable,
                   gtirb.Section.Flag.Loaded, gtirb.Section.Flag.Initialized})
        self.module.byte_order = (gtirb.Module.ByteOrder.Big if isa == ISA.MIPS32
                                  else gtirb.Module.ByteOrder.Little)
        # insertion sites: block blk<i> = 16 bytes of nops at 0x1000 + 64 * i,
        # in a byte interval of its own, carrying the symbol blk<i>
        nop = NOPS[isa]
        self.nopsize = len(nop)
        self.blocks: List[gtirb.CodeBlock] = []
        self.intervals: List[gtirb.ByteInterval] = []
        self.blocksym: Dict[int, gtirb.Symbol] = {}
        for i in range(nblocks):
            bi = gtirb.ByteInterval(contents=nop * (16 // len(nop)), address=0x1000 + 64 * i,
                                    section=sect)
            b = gtirb.CodeBlock(offset=0, size=16, byte_interval=bi)
            self.blocks.append(b)
            self.intervals.append(bi)
            self.blocksym[id(b)] = gtirb.Symbol(f"blk{i}", payload=b, module=self.module)
        self.block = self.blocks[0]
        self.data = None
        if data:
            dbi = gtirb.ByteInterval(contents=b"\0" * 8, address=0x2000, section=sect)
            self.data = gtirb.CodeBlock(offset=0, size=8, byte_interval=dbi)
        self.syms: Dict[str, gtirb.Symbol] = {}
        self.functions: List[gtirb_functions.Function] = []
        for blk, has_call in funcs:
            b = self.blocks[blk]
            u = uuid.uuid4()
            self.functions.append(gtirb_functions.Function(u, {b}, {b}, [self.blocksym[id(b)]]))
            if has_call:
                self.ir.cfg.add(gtirb.Edge(b, gtirb.ProxyBlock(module=self.module),
                                           gtirb.Edge.Label(gtirb.Edge.Type.Call)))
        self.callee = gtirb.Symbol(CALLEE, payload=gtirb.ProxyBlock(module=self.module),
                                   module=self.module)
        self.abi = ABI.get(self.module)
        self.cs = capstone.Cs(arch, mode)
        self.cs.detail = True
        self.arch = arch
        self.sp = self.abi.stack_register().name
        self.width = self.abi.pointer_size()

    def symbol(self, name: str) -> gtirb.Symbol:
        if name not in self.syms:
            self.syms[name] = gtirb.Symbol(name, payload=self.data, module=self.module)
        return self.syms[name]

    def canon(self, name: str) -> str:
        """Canonical (full-width, ABI) name of a register as capstone names it."""
        n = name.lower()
        if self.arch == capstone.CS_ARCH_ARM64:
            if n == "fp":
                return "x29"
            if n == "lr":
                return "x30"
        if n in self.abi.stack_register():
            return self.sp
        try:
            return self.abi.get_register(n).name
        except KeyError:
            return n


_TARGETS: Dict[str, Target] = {}


def target(abi_name: str) -> Target:
    # a fresh module per ABI is enough: nothing below mutates it
    if abi_name not in _TARGETS:
        _TARGETS[abi_name] = Target(abi_name)
    return _TARGETS[abi_name]


# --------------------------------------------------------------------------
# assembling, as RewritingContext._invoke_patch does
# --------------------------------------------------------------------------
def assemble(t: Target, parts: List[Tuple[str, Any]]) -> Tuple[bytes, Dict[int, str]]:
    """parts: (text, x86 syntax).  Returns (bytes, {offset: symbol name})."""
    if not parts:
        return b"", {}
    asm = Assembler(t.module, temp_symbol_suffix="_1", trivially_unreachable=False,
                    implicit_cfi_procedure=True)
    for text, syntax in parts:
        asm.assemble(text, syntax)
    res = asm.finalize()
    sect = res.text_section
    sx = {}
    for off, e in sect.symbolic_expressions.items():
        syms = [s.name for s in e.symbols]
        sx[off] = syms[0] if len(syms) == 1 else "?"
    return bytes(sect.data), sx


# --------------------------------------------------------------------------
# decoding into abstract events
# --------------------------------------------------------------------------
def ev(op: str, r: str = "", r2: str = "", d: int = 0, s: str = "", b=None) -> dict:
    if not -LIMIT < d < LIMIT:
        raise OutOfDomain(f"displacement {d} out of the modelled range")
    return {"op": op, "r": r, "r2": r2, "d": int(d), "s": s, "b": list(b or [])}


def le_bytes(value: int, n: int) -> List[int]:
    return list((value & ((1 << (8 * n)) - 1)).to_bytes(n, "little"))


def signed(value: int, bits: int) -> int:
    value &= (1 << bits) - 1
    return value - (1 << bits) if value >> (bits - 1) else value


def sym_in(insn, sx: Dict[int, str]) -> str:
    for off in range(insn.address, insn.address + insn.size):
        if off in sx:
            return sx[off]
    return ""


def generic(t: Target, insn, flag_regs) -> List[dict]:
    """An instruction outside the table: harmless unless it touches sp/memory."""
    try:
        rd, wr = insn.regs_access()
    except capstone.CsError:
        raise OutOfDomain(f"unclassified {insn.mnemonic} {insn.op_str}")
    names_r = {t.canon(insn.reg_name(r)) for r in rd}
    names_w = {insn.reg_name(r).lower() for r in wr}
    mem = any(o.type == 3 for o in insn.operands)   # *_OP_MEM == 3 on all three
    if mem or t.sp in names_r or t.sp in {t.canon(n) for n in names_w}:
        raise OutOfDomain(f"unclassified {insn.mnemonic} {insn.op_str}")
    if insn.group(capstone.CS_GRP_JUMP) or insn.group(capstone.CS_GRP_CALL) \
            or insn.group(capstone.CS_GRP_RET) or insn.group(capstone.CS_GRP_INT):
        raise OutOfDomain(f"unclassified control flow {insn.mnemonic} {insn.op_str}")
    out = []
    for n in sorted(names_w):
        if n in flag_regs:
            out.append(ev("clobberf"))
        else:
            out.append(ev("clobber", t.canon(n)))
    return out


def decode_x86(t: Target, insn, sx) -> List[dict]:
    ops = insn.operands
    m = insn.mnemonic
    sym = sym_in(insn, sx)
    W = t.width
    sp = t.sp

    def reg(o):
        return insn.reg_name(o.reg).lower()

    def full(o):        # operand is a full-width register
        return o.type == X86.X86_OP_REG and o.size == W

    def memsym(o):      # [rip + sym] or [sym]
        return (o.type == X86.X86_OP_MEM and sym and o.mem.index == 0
                and (o.mem.base == 0 or insn.reg_name(o.mem.base) in ("rip", "eip"))
                and o.mem.segment == 0 and o.size == W)

    if insn.id == X86.X86_INS_NOP:
        return []
    if insn.id == X86.X86_INS_PUSH and len(ops) == 1:
        o = ops[0]
        if full(o):
            return [ev("push", t.canon(reg(o)))]
        if o.type == X86.X86_OP_IMM and 0x66 not in list(insn.prefix):
            if sym:
                return [ev("pushsym", s=sym)]
            return [ev("pushimm", b=le_bytes(o.imm, W))]
        if memsym(o):
            return [ev("pushmem", s=sym)]
    if insn.id == X86.X86_INS_POP and len(ops) == 1 and full(ops[0]):
        return [ev("pop", t.canon(reg(ops[0])))]
    if insn.id in (X86.X86_INS_PUSHFQ, X86.X86_INS_PUSHFD) and insn.size == 1:
        if (insn.id == X86.X86_INS_PUSHFQ) == (W == 8):
            return [ev("pushf")]
    if insn.id in (X86.X86_INS_POPFQ, X86.X86_INS_POPFD) and insn.size == 1:
        if (insn.id == X86.X86_INS_POPFQ) == (W == 8):
            return [ev("popf")]
    if insn.id == X86.X86_INS_LEA and len(ops) == 2 and full(ops[0]):
        dst = t.canon(reg(ops[0]))
        mo = ops[1].mem
        base = insn.reg_name(mo.base).lower() if mo.base else ""
        if dst == sp and t.canon(base) == sp and mo.index == 0 and not sym \
                and base in (sp,) and mo.segment == 0:
            return [ev("adjsp", d=mo.disp)]
        if dst != sp and sym and mo.index == 0 and base in ("", "rip", "eip"):
            return [ev("loadsym", dst, s=sym)]
        if dst != sp and t.canon(base) != sp and \
                (mo.index == 0 or t.canon(insn.reg_name(mo.index)) != sp):
            return [ev("clobber", dst)]       # address arithmetic, no access
        raise OutOfDomain(f"unclassified {m} {insn.op_str}")
    if insn.id in (X86.X86_INS_SUB, X86.X86_INS_ADD) and len(ops) == 2 \
            and full(ops[0]) and t.canon(reg(ops[0])) == sp \
            and ops[1].type == X86.X86_OP_IMM and not sym:
        k = signed(ops[1].imm, 8 * W)
        return [ev("adjspf", d=-k if insn.id == X86.X86_INS_SUB else k)]
    if insn.id == X86.X86_INS_AND and len(ops) == 2 and full(ops[0]) \
            and t.canon(reg(ops[0])) == sp and ops[1].type == X86.X86_OP_IMM:
        return [ev("andsp", d=signed(ops[1].imm, 8 * W))]
    if insn.id in (X86.X86_INS_MOV, X86.X86_INS_MOVABS) and len(ops) == 2 \
            and ops[0].type == X86.X86_OP_REG:
        dst = t.canon(reg(ops[0]))
        o = ops[1]
        if full(ops[0]) and full(o):
            src = t.canon(reg(o))
            if src == sp and dst != sp:
                return [ev("movspto", dst)]
            if dst == sp and src != sp:
                return [ev("movtosp", src)]
        if o.type == X86.X86_OP_IMM and dst != sp:
            if full(ops[0]):
                if sym:
                    return [ev("loadsym", dst, s=sym)]
                return [ev("movimm", dst, b=le_bytes(o.imm, W))]
            if ops[0].size == 4 and W == 8 and not sym:      # zero-extends
                return [ev("movimm", dst, b=le_bytes(o.imm & 0xFFFFFFFF, W))]
        if full(ops[0]) and memsym(o) and dst != sp:
            return [ev("loadmem", dst, s=sym)]
    if insn.id == X86.X86_INS_CALL and len(ops) == 1 and ops[0].type == X86.X86_OP_IMM:
        if sym:
            return [ev("call", s=sym)]
        raise OutOfDomain("call without a symbolic target")
    return generic(t, insn, {"rflags", "eflags", "flags"})


def decode_arm64(t: Target, insn, sx) -> List[dict]:
    ops = insn.operands
    sym = sym_in(insn, sx)
    sp = "sp"

    def reg(o):
        return insn.reg_name(o.reg).lower()

    def xreg(o):
        if o.type != A64.ARM64_OP_REG:
            return False
        n = reg(o)
        return n in ("fp", "lr") or (n.startswith("x") and n[1:].isdigit())

    def spmem(o):
        return (o.type == A64.ARM64_OP_MEM and o.mem.index == 0
                and insn.reg_name(o.mem.base) == "sp")

    i = insn.id
    if i == A64.ARM64_INS_NOP or (i == A64.ARM64_INS_HINT):
        return []
    if i == A64.ARM64_INS_STP and len(ops) == 3 and xreg(ops[0]) and xreg(ops[1]) \
            and spmem(ops[2]) and insn.writeback:
        return [ev("stppre", t.canon(reg(ops[0])), t.canon(reg(ops[1])), ops[2].mem.disp)]
    if i == A64.ARM64_INS_LDP and len(ops) == 4 and xreg(ops[0]) and xreg(ops[1]) \
            and spmem(ops[2]) and ops[2].mem.disp == 0 and insn.writeback \
            and ops[3].type == A64.ARM64_OP_IMM:
        return [ev("ldppost", t.canon(reg(ops[0])), t.canon(reg(ops[1])), ops[3].imm)]
    if i == A64.ARM64_INS_STR and xreg(ops[0]) and len(ops) == 2 and spmem(ops[1]):
        if insn.writeback:
            return [ev("strpre", t.canon(reg(ops[0])), d=ops[1].mem.disp)]
        return [ev("storeslot", t.canon(reg(ops[0])), d=ops[1].mem.disp)]
    if i == A64.ARM64_INS_LDR and xreg(ops[0]) and spmem(ops[1]):
        if len(ops) == 3 and insn.writeback and ops[1].mem.disp == 0 \
                and ops[2].type == A64.ARM64_OP_IMM:
            return [ev("ldrpost", t.canon(reg(ops[0])), d=ops[2].imm)]
        if len(ops) == 2 and not insn.writeback:
            return [ev("lw", t.canon(reg(ops[0])), d=ops[1].mem.disp)]
    if i == A64.ARM64_INS_MRS and len(ops) == 2 and xreg(ops[0]) \
            and insn.op_str.lower().endswith("nzcv"):
        return [ev("mrs", t.canon(reg(ops[0])))]
    if i == A64.ARM64_INS_MSR and len(ops) == 2 and xreg(ops[1]) \
            and insn.op_str.lower().startswith("nzcv"):
        return [ev("msr", t.canon(reg(ops[1])))]
    if i in (A64.ARM64_INS_SUB, A64.ARM64_INS_ADD) and len(ops) == 3 \
            and ops[0].type == A64.ARM64_OP_REG and ops[1].type == A64.ARM64_OP_REG \
            and reg(ops[0]) == sp and reg(ops[1]) == sp \
            and ops[2].type == A64.ARM64_OP_IMM and not insn.update_flags and not sym:
        k = ops[2].imm << (ops[2].shift.value if ops[2].shift.type else 0)
        return [ev("adjsp", d=-k if i == A64.ARM64_INS_SUB else k)]
    if i in (A64.ARM64_INS_MOV, A64.ARM64_INS_MOVZ, A64.ARM64_INS_MOVN) and len(ops) == 2 \
            and ops[0].type == A64.ARM64_OP_REG and ops[1].type == A64.ARM64_OP_IMM \
            and reg(ops[0]) not in ("sp", "wsp") and not sym:
        k = ops[1].imm << (ops[1].shift.value if ops[1].shift.type else 0)
        if i == A64.ARM64_INS_MOVN:
            k = ~k
        if not xreg(ops[0]):
            k &= 0xFFFFFFFF
        return [ev("movimm", t.canon(reg(ops[0])), b=le_bytes(k, 8))]
    if i == A64.ARM64_INS_MOVK and len(ops) == 2 and xreg(ops[0]) \
            and ops[1].type == A64.ARM64_OP_IMM and not sym:
        sh = ops[1].shift.value if ops[1].shift.type else 0
        return [ev("movk", t.canon(reg(ops[0])), d=sh, b=le_bytes(ops[1].imm, 2))]
    if i == A64.ARM64_INS_ADRP and len(ops) == 2 and xreg(ops[0]) and sym:
        return [ev("adrp", t.canon(reg(ops[0])), s=sym)]
    if i == A64.ARM64_INS_ADD and len(ops) == 3 and xreg(ops[0]) and xreg(ops[1]) \
            and ops[2].type == A64.ARM64_OP_IMM and sym and not insn.update_flags:
        return [ev("addlo12", t.canon(reg(ops[0])), t.canon(reg(ops[1])), s=sym)]
    if i == A64.ARM64_INS_BL:
        if sym:
            return [ev("call", s=sym)]
        raise OutOfDomain("bl without a symbolic target")
    if sym:
        raise OutOfDomain(f"unclassified symbolic {insn.mnemonic} {insn.op_str}")
    return generic(t, insn, {"nzcv"})


def decode_mips(t: Target, insn, sx) -> List[dict]:
    ops = insn.operands
    i = insn.id

    def reg(o):
        return insn.reg_name(o.reg).lower()

    def spmem(o):
        return o.type == MIPS.MIPS_OP_MEM and insn.reg_name(o.mem.base) == "sp"

    if i == MIPS.MIPS_INS_NOP:
        return []
    if i == MIPS.MIPS_INS_ADDIU and len(ops) == 3 and reg(ops[0]) == "sp" \
            and reg(ops[1]) == "sp" and ops[2].type == MIPS.MIPS_OP_IMM:
        return [ev("adjsp", d=signed(ops[2].imm, 16))]
    if i == MIPS.MIPS_INS_SW and len(ops) == 2 and spmem(ops[1]):
        return [ev("sw", t.canon(reg(ops[0])), d=ops[1].mem.disp)]
    if i == MIPS.MIPS_INS_LW and len(ops) == 2 and spmem(ops[1]):
        return [ev("lw", t.canon(reg(ops[0])), d=ops[1].mem.disp)]
    return generic(t, insn, set())


DECODERS = {capstone.CS_ARCH_X86: decode_x86, capstone.CS_ARCH_ARM64: decode_arm64,
            capstone.CS_ARCH_MIPS: decode_mips}


def decode(t: Target, data: bytes, sx: Dict[int, str], cuts: Tuple[int, int]):
    """Decodes data into three event lists split at the byte offsets cuts."""
    parts: List[List[dict]] = [[], [], []]
    text: List[str] = []
    pos = 0
    dec = DECODERS[t.arch]
    for insn in t.cs.disasm(data, 0):
        if insn.address != pos:
            break
        k = 0 if insn.address < cuts[0] else (1 if insn.address < cuts[1] else 2)
        if insn.address < cuts[0] < insn.address + insn.size or \
                insn.address < cuts[1] < insn.address + insn.size:
            raise OutOfDomain("instruction straddles a prologue/body/epilogue boundary")
        text.append(f"{insn.mnemonic} {insn.op_str}".strip())
        parts[k].extend(dec(t, insn, sx))
        pos += insn.size
    if pos != len(data):
        raise OutOfDomain(f"undecodable bytes at {pos}")
    return parts, text


# --------------------------------------------------------------------------
# cases
# --------------------------------------------------------------------------
def constraints_of(case: dict) -> Constraints:
    return Constraints(
        clobbers_flags=bool(case["flags"]),
        # the names as the patch author spelled them (upper case, sub-register
        # names, ...); clob / reads are the same registers by identity
        clobbers_registers=set(case.get("clobsp", case["clob"])),
        scratch_registers=int(case["scratch"]),
        reads_registers=set(case.get("readsp", case["reads"])),
        align_stack=bool(case["align"]),
        preserve_caller_saved_registers=bool(case["pcs"]),
    )


def make_call_patch(t: Target, case: dict, cblog: list) -> CallPatch:
    args = []
    for pos, a in enumerate(case["args"]):
        k = a["k"]
        if k in ("ctxoff", "ctxaddr", "ctxsym"):
            # argument callables whose result depends on the insertion context
            def cfn(ctx, _k=k, _p=pos):
                cblog.append((_p, ctx))
                if _k == "ctxoff":
                    return 512 + ctx.offset
                if _k == "ctxaddr":
                    return ctx.block.address
                return t.blocksym[id(ctx.block)]
            args.append(cfn)
            continue
        if k == "sym":
            val: Any = t.symbol(a["s"])
        else:
            val = int.from_bytes(bytes(a["b"]), "little", signed=bool(a["sg"]))
        if a["cb"]:
            def fn(ctx, _v=val, _p=pos):
                cblog.append((_p, ctx))
                return _v
            args.append(fn)
        else:
            args.append(val)
    conv = None
    if case["custom"]:
        conv = CallingConventionDesc(
            registers=tuple(case["cregs"]), stack_alignment=int(case["calign"]),
            caller_cleanup=bool(case["ccaller"]), shadow_space=int(case["cshadow"]))
    kwargs = {}
    if not case["dflt"]:
        kwargs = dict(clobbers_flags=bool(case["flags"]), align_stack=bool(case["align"]),
                      preserve_caller_saved_registers=bool(case["pcs"]),
                      scratch_registers=int(case["scratch"]))
    # `args` is declared Iterable: a tuple, a list or a one-shot iterator (argshape 0 / 1 / 2)
    shape = int(case.get("argshape", 0))
    given: Any = tuple(args) if shape == 0 else list(args) if shape == 1 else iter(list(args))
    return CallPatch(t.callee, given, conv, **kwargs)


def empty_obs() -> Dict[str, Any]:
    return {"pro": [], "body": [], "epi": [], "adjknown": True, "adj": 0, "scratch": [], "cb": []}


def cb_records(calls: List[Tuple[int, Any]], ctx) -> List[dict]:
    # "same": what the callable received equals, field by field, the context
    # get_asm was given (module, function, block, offset, stack_adjustment,
    # scratch_registers)
    return [{"i": p, "same": bool(c == ctx), "isctx": isinstance(c, InsertionContext)}
            for p, c in calls]


def split_and_decode(t: Target, data: bytes, sx: Dict[int, str], body_text: str, syntax,
                     obs: dict):
    """data = what was emitted at a site (prologue, body, epilogue).  The two
    boundaries are found from the BODY alone (its bytes, assembled by
    themselves, at an instruction boundary), so whatever surrounds the body -
    including nothing at all - is decoded and judged."""
    bdata, _ = assemble(t, [(body_text, syntax)])
    starts = []
    pos = 0
    for insn in t.cs.disasm(data, 0):
        if insn.address != pos:
            break
        if data[pos:pos + len(bdata)] == bdata:
            starts.append(pos)
        pos += insn.size
    if len(starts) != 1:
        raise OutOfDomain(f"the patch body occurs {len(starts)} times in the emitted code")
    parts, text = decode(t, data, sx, (starts[0], starts[0] + len(bdata)))
    obs["pro"], obs["body"], obs["epi"] = parts
    return text


class NopPatch(Patch):
    """The patch of the C16 histories: given constraints, body `nop`."""

    def get_asm(self, insertion_context):
        return "nop"


def run_direct(t: Target, case: dict, patch, constraints, tr: dict, cblog: list) -> List[dict]:
    """Allocation, prologue / epilogue, get_asm and assembly exactly as
    RewritingContext._invoke_patch does them, once per insertion site, with
    ONE patch object."""
    sites = case.get("sites") or [{"blk": 0, "off": 0}]
    syntax = constraints.x86_syntax
    out = []
    for site in sites:
        obs = empty_obs()
        out.append(obs)
        tr["stage"] = "allocate"
        registers = t.abi._allocate_patch_registers(constraints)
        scratch = [r.name for r in registers.scratch_registers]
        tr["stage"] = "generate"
        prologue, epilogue, adj = t.abi._create_prologue_and_epilogue(
            constraints, registers, bool(case["leaf"]))
        prologue = list(prologue)
        epilogue = list(epilogue)
        obs["scratch"] = scratch
        obs["adjknown"] = adj is not None
        obs["adj"] = int(adj) if adj is not None else 0
        ctx = InsertionContext(t.module, None, t.blocks[site["blk"]], int(site.get("off", 0)))
        ctx = dataclasses.replace(ctx, stack_adjustment=adj,
                                  scratch_registers=registers.scratch_registers)
        tr["stage"] = "get_asm"
        del cblog[:]
        body = patch.get_asm(ctx) if patch is not None else "nop"
        obs["cb"] = cb_records(cblog, ctx)
        tr["stage"] = "assemble"
        pro_parts = [(s.code, s.x86_syntax) for s in prologue]
        epi_parts = [(s.code, s.x86_syntax) for s in epilogue]
        data, sx = assemble(t, pro_parts + [(body, syntax)] + epi_parts)
        tr["stage"] = "decode"
        text = split_and_decode(t, data, sx, body, syntax, obs)
        if os.environ.get("VERIF_DEBUG"):
            tr["text"] = tr["text"] + text          # disassembly, for humans only
    return out


def run_rewrite(t: Target, case: dict, patch, constraints, tr: dict, cblog: list) -> List[dict]:
    """The ONE patch object is inserted at every site in a single
    RewritingContext.apply() (insert_at in a loop, AllBlocksScope or
    AllFunctionsScope); the code found at each site afterwards is decoded."""
    sites = case["sites"]
    mode = case["mode"]
    calls: List[Tuple[Any, Any, List[Tuple[int, Any]]]] = []
    orig = patch.get_asm

    def spy(ctx):
        del cblog[:]
        text = None
        try:
            text = orig(ctx)
            return text
        finally:
            calls.append((ctx, text, list(cblog)))

    patch.get_asm = spy
    tr["stage"] = "rewrite"
    rc = RewritingContext(t.module, t.functions)
    if mode == "blocks":
        rc.register_insert(AllBlocksScope(BlockPosition.ENTRY), patch)
    elif mode == "funcs":
        rc.register_insert(AllFunctionsScope(FunctionPosition.ENTRY, BlockPosition.ENTRY), patch)
    else:
        for site in sites:
            rc.insert_at(t.blocks[site["blk"]], int(site.get("off", 0)), patch)
    rc.apply()
    tr["stage"] = "decode"
    out = []
    for site in sites:
        obs = empty_obs()
        out.append(obs)
        blk = t.blocks[site["blk"]]
        off = int(site.get("off", 0))
        mine = [c for c in calls if c[0].block is blk and c[0].offset == off]
        if len(mine) != 1:
            raise OutOfDomain(f"{len(mine)} get_asm calls for site {site}")
        ctx, body_text, cbs = mine[0]
        adj = ctx.stack_adjustment
        obs["adjknown"] = adj is not None
        obs["adj"] = int(adj) if adj is not None else 0
        obs["scratch"] = [r.name for r in ctx.scratch_registers]
        obs["cb"] = cb_records(cbs, ctx)
        bi = t.intervals[site["blk"]]
        whole = bytes(bi.contents)
        tail = 16 - off
        nop = NOPS[t.module.isa]
        if len(whole) < 16 or whole[:off] != nop * (off // t.nopsize) \
                or whole[len(whole) - tail:] != nop * (tail // t.nopsize):
            raise OutOfDomain("site block not found where it was")
        data = whole[off:len(whole) - tail]
        sx = {}
        for o, e in bi.symbolic_expressions.items():
            names = [x.name for x in e.symbols]
            sx[o - off] = names[0] if len(names) == 1 else "?"
        text = split_and_decode(t, data, sx, body_text, constraints.x86_syntax, obs)
        if os.environ.get("VERIF_DEBUG"):
            tr["text"] = tr["text"] + text
    if len(calls) != len(sites):
        raise OutOfDomain(f"{len(calls)} insertions for {len(sites)} sites")
    return out


class CallExtPatch(Patch):
    """History step "addcall": a plain patch that calls an external function (it turns
    the function it is inserted into a non-leaf in the CFG)."""

    def get_asm(self, insertion_context):
        isa = insertion_context.module.isa
        if isa in (gtirb.Module.ISA.X64, gtirb.Module.ISA.IA32):
            return f"call {CALLEE}"
        if isa == gtirb.Module.ISA.ARM64:
            return f"bl {CALLEE}"
        return f"jal {CALLEE}\nnop"


def run_contexts(t: Target, case: dict, patch, constraints, tr: dict, cblog: list) -> List[dict]:
    """A history of several RewritingContexts over ONE module (mode "ctxs"): every
    context is given the functions `known` to it (rebuilt from the aux tables, as a
    driver would) and performs 1-2 steps: "patch" inserts the constrained patch at
    the start of function block blk (judged site), "addcall" inserts a call at the
    end of that block.  The code inserted by a "patch" step is the difference of
    the block's byte interval before / after that context's apply()."""
    m = t.module
    m.aux_data["functionEntries"] = gtirb.AuxData(
        {f.uuid: {b for b in f.get_entry_blocks()} for f in t.functions}, "mapping<UUID,set<UUID>>")
    m.aux_data["functionBlocks"] = gtirb.AuxData(
        {f.uuid: {b for b in f.get_all_blocks()} for f in t.functions}, "mapping<UUID,set<UUID>>")
    m.aux_data["functionNames"] = gtirb.AuxData(
        {f.uuid: t.blocksym[id(next(iter(f.get_entry_blocks())))] for f in t.functions}, "mapping<UUID,UUID>")
    uuid_of = {i: f.uuid for i, f in enumerate(t.functions)}
    calls: List[Tuple[Any, Any, List[Tuple[int, Any]]]] = []
    orig = patch.get_asm

    def spy(ctx):
        del cblog[:]
        text = None
        try:
            text = orig(ctx)
            return text
        finally:
            calls.append((ctx, text, list(cblog)))

    patch.get_asm = spy
    out = []
    for ci, c in enumerate(case["hist"]):
        tr["stage"] = f"context{ci + 1}"
        fns = gtirb_functions.Function.build_functions(m)
        known = [f for f in fns if any(f.uuid == uuid_of[k] for k in c["known"])]
        rc = RewritingContext(m, known)
        judged = []
        for st in c["ops"]:
            blk = t.blocks[st["blk"]]
            if st["op"] == "patch":
                rc.insert_at(blk, 0, patch)
                judged.append(st["blk"])
            else:
                rc.insert_at(blk, blk.size, CallExtPatch(Constraints()))
        before = {b: bytes(t.intervals[b].contents) for b in judged}
        ncalls = len(calls)
        rc.apply()
        for k, b in enumerate(judged):
            obs = empty_obs()
            out.append(obs)
            if len(calls) - ncalls != len(judged):
                raise OutOfDomain(f"{len(calls) - ncalls} get_asm calls for {len(judged)} patch steps")
            ctx, body_text, cbs = calls[ncalls + k]
            adj = ctx.stack_adjustment
            obs["adjknown"] = adj is not None
            obs["adj"] = int(adj) if adj is not None else 0
            obs["scratch"] = [r.name for r in ctx.scratch_registers]
            obs["cb"] = cb_records(cbs, ctx)
            bi = t.intervals[b]
            after = bytes(bi.contents)
            n = len(after) - len(before[b])
            # (an "addcall" of the same context sits at the end of the block)
            tailcall = sum(1 for st in c["ops"] if st["op"] == "addcall" and st["blk"] == b)
            if tailcall:
                raise OutOfDomain("patch and addcall on one block in one context")
            if n <= 0 or after[n:] != before[b]:
                raise OutOfDomain("inserted code not found at the start of the block")
            data = after[:n]
            sx = {}
            for o, e in bi.symbolic_expressions.items():
                if o < n:
                    names = [x.name for x in e.symbols]
                    sx[o] = names[0] if len(names) == 1 else "?"
            tr["stage"] = "decode"
            text = split_and_decode(t, data, sx, body_text, constraints.x86_syntax, obs)
            if os.environ.get("VERIF_DEBUG"):
                tr["text"] = tr["text"] + text
    return out


def run_case(case: dict) -> dict:
    kind = case["kind"]
    mode = case.get("mode", "single")
    rewrite = mode in ("rewrite", "loop", "blocks", "funcs", "ctxs")
    # the rewriter modifies the module: a fresh one for such a case
    if mode == "ctxs":
        # one function per block; orig[i]: the function contains a call from the start
        t = Target(case["abi"], nblocks=len(case["orig"]), data=False,
                   funcs=[(i, bool(oc)) for i, oc in enumerate(case["orig"])])
    elif rewrite and kind == "c16":
        # site blocks only; a possibly-leaf site is a block outside any function
        # (loop) or a function without calls, the others are functions with a call
        sites = case["sites"]
        funcs = [(s_["blk"], not s_["leaf"]) for s_ in sites
                 if mode != "loop" or not s_["leaf"]]
        t = Target(case["abi"], nblocks=len(sites), data=False, funcs=funcs)
    elif rewrite:
        t = Target(case["abi"])
    else:
        t = target(case["abi"])
    tr: Dict[str, Any] = {
        "id": case["id"], "cfg": {k: v for k, v in case.items() if k != "id"},
        "exc": "", "stage": "init", "ood": False, "oodwhy": "",
        "declclob": [], "text": [], "more": [],
    }
    tr.update(empty_obs())
    cblog: List[Tuple[int, Any]] = []
    obs: List[dict] = []
    try:
        if kind == "c17":
            tr["stage"] = "construct"
            patch = make_call_patch(t, case, cblog)
            constraints = patch.constraints
        else:
            constraints = constraints_of(case)
            patch = NopPatch(constraints) if rewrite else None
        tr["declclob"] = sorted({t.canon(r) for r in constraints.clobbers_registers})
        if mode == "ctxs":
            obs = run_contexts(t, case, patch, constraints, tr, cblog)
        elif rewrite:
            obs = run_rewrite(t, case, patch, constraints, tr, cblog)
        else:
            obs = run_direct(t, case, patch, constraints, tr, cblog)
        tr["stage"] = "done"
    except OutOfDomain as e:
        tr["ood"] = True
        tr["oodwhy"] = str(e)
    except BaseException as e:      # observed; judged in TLA+
        tr["exc"] = type(e).__name__
        if os.environ.get("VERIF_DEBUG"):
            traceback.print_exc()
    if obs:
        tr.update(obs[0])               # first site at the top level
    if tr["stage"] == "done":
        tr["more"] = obs[1:]            # further sites of a history
    return tr


def main(argv):
    """runner.py CASES.ndjson TRACES.ndjson"""
    src, dst = argv[1], argv[2]
    n = 0
    with open(src) as f, open(dst, "w") as out:
        for line in f:
            line = line.strip()
            if not line:
                continue
            tr = run_case(json.loads(line))
            out.write(json.dumps(tr, separators=(",", ":")) + "\n")
            n += 1
    print(f"ran {n} cases")


if __name__ == "__main__":
    main(sys.argv)
